"""C26 - Reference cell topology is internally consistent (exhaustive law checker).

Events: every call of `topological_dimension`, `num_sub_entities(d)`, `sub_entities(d)`,
`sub_entity_types(d)`, the named aliases (`num_vertices` ... `num_peaks`, `vertices` ... `peaks`,
`vertex_types` ... `peak_types`) and of `<`, `>`, `==`, `hash`, `sorted` on the real cell objects:
all named cells of `ufl.cell`, all tensor-product cells of topological dimension <= 3 with up to
3 (quick) / 5 (thorough) factors, one level of nesting, separately constructed equal copies, and
the objects handed out as "the cell itself" by `sub_entities(tdim)`.

Oracle (independent of ufl): a hand-written table of f-vectors and facet types of the named
polytopes, the product rule for f-vectors of product polytopes, and the laws

  * Euler-Poincare in the form  sum_{d=0}^{tdim} (-1)^d N_d = 1  where N_tdim = 1 counts the cell
    itself (equivalently sum_{d<tdim} (-1)^d N_d = 1 - (-1)^tdim),
  * every object returned by sub_entities(d) is an AbstractCell of topological dimension d that
    itself satisfies all of these laws (recursion), len(sub_entities(d)) == num_sub_entities(d),
    there are no entities of dimension < 0 or > tdim and exactly one of dimension tdim (the cell),
  * face-of-a-face: every k-entity type of a d-entity occurs among the k-entities of the parent,
    a facet has at least tdim and fewer than N_0 vertices and no more k-entities than the parent,
    N_k >= binomial(tdim+1, k+1),
  * diamond property: sum over facets F of num_facets(F) == 2 * num_ridges,
  * facets / ridges / peaks (numbers, tuples, types) are those of dimension tdim-1 / -2 / -3,
    vertices / edges / faces those of dimension 0 / 1 / 2,
  * `<` is a strict total order compatible with structural identity: irreflexive, exactly one of
    a<b, b<a for structurally different cells, neither for structurally equal ones, == symmetric
    and equal to structural identity, equal cells hash equally, `a > b` is `b < a`, transitive on
    all triples, and `sorted` returns one and the same ascending sequence for every permutation.

A `NotImplementedError` (TensorProductCell for intermediate dimensions) is an explicit refusal: it
is counted (`refused_not_implemented`) and the laws needing that number are counted as undecided,
never as held or violated.  Any other exception from the real code is a violation.
"""

import itertools
import random
import weakref
from collections import Counter
from math import comb

from ufl import cell as ucell
from ufl.cell import AbstractCell, Cell, TensorProductCell

LEVEL = "exploration"
ENGINE = "laws"
TECHNIQUE = (
    "exhaustive runtime law checker around the real cell classes against a hand-written f-vector table, "
    "the product rule for f-vectors and the polytope / strict-total-order laws"
)
LEVEL_TEXT = (
    "Every topology accessor of every named cell and of every tensor-product cell of topological dimension <= 3 "
    "(up to 3/5 factors, one nesting level) is executed and judged by the Euler-Poincare relation, recursive "
    "sub-entity consistency, the diamond property, the facet/ridge/peak dimension rule and a hand-written table of "
    "f-vectors; `<`, `>`, `==`, `hash` and `sorted` are executed on all ordered pairs and all triples of these cells "
    "and judged by the strict-total-order laws.  The space is finite and enumerated completely, so within these "
    "bounds the result is exhaustive."
)
LEVEL_NOTE = (
    "trusted: the hand-written f-vector / facet-type table and the product rule (ASSUMPTIONS); tensor products "
    "bounded by tdim <= 3, <= 3 (quick) / 5 (thorough) factors, one nesting level; NotImplementedError is a refusal"
)
EXHAUSTIVE = True
BUDGET = {"quick": 60, "thorough": 300}
NCASES = {"quick": 0, "thorough": 0}
EVAL_COUNTER = "law_checks"
FLOORS = {
    "quick": {
        "cells_checked": 100,
        "named_cells_checked": 8,
        "euler_checks": 40,
        "f_vector_checks": 300,
        "sub_entity_objects": 150,
        "diamond_checks": 8,
        "alias_checks": 900,
        "order_pairs": 15000,
        "order_triples": 1500000,
        "sort_permutations": 150,
    },
    "thorough": {
        "cells_checked": 280,
        "named_cells_checked": 8,
        "euler_checks": 60,
        "f_vector_checks": 500,
        "sub_entity_objects": 150,
        "diamond_checks": 8,
        "alias_checks": 1500,
        "order_pairs": 150000,
        "order_triples": 60000000,
        "sort_permutations": 1500,
    },
}
RULE = (
    "all named cells of ufl.cell (hand table: vertex, interval, triangle, quadrilateral, tetrahedron, hexahedron, "
    "prism, pyramid, pentatope, tesseract), all TensorProductCell(*factors) with total topological dimension <= 3 and "
    "1..3 (quick) / 1..5 (thorough) named factors, nested products TensorProductCell(X, y) / (y, X) with X a "
    "two-factor product, separately constructed copies, and the sub_entities(tdim) objects; all ordered pairs and "
    "all triples of these for the order laws.  Distinct non-trivial cases: (cell structure, dimension) count events "
    "with 0 <= dim <= tdim, and unordered pairs of structurally different cells"
)
ASSUMPTIONS = [
    "f-vectors (N_0..N_tdim): vertex (1), interval (2,1), triangle (3,3,1), quadrilateral (4,4,1), tetrahedron "
    "(4,6,4,1), hexahedron (8,12,6,1), prism (6,9,5,1), pyramid (5,8,5,1), pentatope (5,10,10,5,1), tesseract "
    "(16,32,24,8,1); facets: prism 2 triangles + 3 quadrilaterals, pyramid 1 quadrilateral + 4 triangles, others uniform",
    "the f-polynomial of a product polytope is the product of the f-polynomials of its factors (top cell included)",
    "two cells are the same cell iff they were constructed the same way (Cell name, or TensorProductCell with the same "
    "factor sequence); TensorProductCell(interval) and Cell('interval') are different cell objects",
    "NotImplementedError from TensorProductCell for 0 < dim < tdim-1 and for sub_entities(tdim-1) is a refusal, not an answer",
    "the empty product TensorProductCell() is not enumerated",
]

# ---------------------------------------------------------------- hand-written ground truth
FVEC = {
    "vertex": (1,),
    "interval": (2, 1),
    "triangle": (3, 3, 1),
    "quadrilateral": (4, 4, 1),
    "tetrahedron": (4, 6, 4, 1),
    "hexahedron": (8, 12, 6, 1),
    "prism": (6, 9, 5, 1),
    "pyramid": (5, 8, 5, 1),
    "pentatope": (5, 10, 10, 5, 1),
    "tesseract": (16, 32, 24, 8, 1),
}
# types of the entities of each dimension < tdim
ENTITY_TYPES = {
    "vertex": [],
    "interval": [{"vertex": 2}],
    "triangle": [{"vertex": 3}, {"interval": 3}],
    "quadrilateral": [{"vertex": 4}, {"interval": 4}],
    "tetrahedron": [{"vertex": 4}, {"interval": 6}, {"triangle": 4}],
    "hexahedron": [{"vertex": 8}, {"interval": 12}, {"quadrilateral": 6}],
    "prism": [{"vertex": 6}, {"interval": 9}, {"triangle": 2, "quadrilateral": 3}],
    "pyramid": [{"vertex": 5}, {"interval": 8}, {"triangle": 4, "quadrilateral": 1}],
    "pentatope": [{"vertex": 5}, {"interval": 10}, {"triangle": 10}, {"tetrahedron": 5}],
    "tesseract": [{"vertex": 16}, {"interval": 32}, {"quadrilateral": 24}, {"hexahedron": 8}],
}
NAMES = list(FVEC)

_PROXY = (weakref.ProxyType, weakref.CallableProxyType)
_MAXKEY = 4  # violations reported per mechanism key and worker


# ---------------------------------------------------------------- structural description (independent of ufl ==/repr/hash)
def is_proxy(c):
    return type(c) in _PROXY


def struct(c):
    """Construction structure of a cell object: ('C', name) or ('T', (factor structures...))."""
    if isinstance(c, TensorProductCell):
        return ("T", tuple(struct(f) for f in c.sub_cells))
    if isinstance(c, Cell):
        return ("C", str(c.cellname))
    return ("?", type(c).__name__)


def sname(s):
    if s[0] == "C":
        return s[1]
    if s[0] == "T":
        return "TP(" + ",".join(sname(f) for f in s[1]) + ")"
    return "?" + s[1]


def sclass(s, proxy=False):
    """Class label used in mechanism keys."""
    if proxy:
        return "TopEntityProxy"
    if s[0] == "C":
        return "Cell"
    if s[0] == "T":
        return "NestedTensorProductCell" if any(f[0] == "T" for f in s[1]) else "TensorProductCell"
    return "Other"


def skey(s):
    """Cell label for structure keys: the name for named cells, the class for products."""
    return s[1] if s[0] == "C" else sclass(s)


def truth_fvec(s):
    """f-vector (N_0..N_tdim) from the hand table and the product rule; None if unknown."""
    if s[0] == "C":
        return FVEC.get(s[1])
    if s[0] == "T":
        poly = [1]
        for f in s[1]:
            g = truth_fvec(f)
            if g is None:
                return None
            new = [0] * (len(poly) + len(g) - 1)
            for i, a in enumerate(poly):
                for j, b in enumerate(g):
                    new[i + j] += a * b
            poly = new
        return tuple(poly)
    return None


# ---------------------------------------------------------------- helpers
class Mon:
    """Violation reporting with a cap per mechanism key."""

    def __init__(self, ctx):
        self.ctx = ctx
        self.nkey = Counter()

    def bad(self, key, desc, detail=None):
        self.nkey[key] += 1
        if self.nkey[key] <= _MAXKEY:
            self.ctx.violation(key, desc, detail)
        else:
            self.ctx.count("violations_beyond_cap_same_key")

    def check(self, ok, key, desc, counter=None):
        self.ctx.count("law_checks")
        if counter:
            self.ctx.count(counter)
        if not ok:
            self.bad(key, desc)
        return ok


def call(f):
    """('ok', value) | ('refused', msg) for NotImplementedError | ('raised', 'Type: msg')."""
    try:
        return ("ok", f())
    except NotImplementedError as e:
        return ("refused", str(e))
    except Exception as e:  # the real code crashed: reported by the caller
        return ("raised", f"{type(e).__name__}: {e}")


# ---------------------------------------------------------------- structure laws for one cell object
def check_cell(ctx, mon, c, path, depth=0):
    """Run every structure law on the real cell object `c`.  `path` describes how it was reached."""
    s = struct(c)
    me = sname(s)
    where = me if not path else f"{me} (reached as {path})"
    k = skey(s)
    ctx.count("cells_checked" if depth == 0 else "sub_cells_checked_recursively")
    if depth == 0 and s[0] == "C":
        ctx.count("named_cells_checked")
    ctx.covered("cell_classes", sclass(s, is_proxy(c)))
    truth = truth_fvec(s)
    if truth is None:
        ctx.count("cells_without_ground_truth")

    r = call(lambda: c.topological_dimension)
    if r[0] != "ok" or not isinstance(r[1], int) or isinstance(r[1], bool) or r[1] < 0:
        mon.bad(f"C26/tdim-invalid/{k}", f"{where}.topological_dimension gives {r!r}")
        return None
    tdim = r[1]
    if truth is not None:
        mon.check(tdim == len(truth) - 1, f"C26/tdim-vs-table/{k}", f"{where}.topological_dimension is {tdim}, polytope has dimension {len(truth) - 1}", "f_vector_checks")

    N = {}  # dim -> number, for dims answered
    E = {}  # dim -> tuple of entities
    undecided = False
    for d in range(-2, tdim + 3):
        rn = call(lambda: c.num_sub_entities(d))
        re_ = call(lambda: c.sub_entities(d))
        rt = call(lambda: c.sub_entity_types(d))
        for what, rr in (("num_sub_entities", rn), ("sub_entities", re_), ("sub_entity_types", rt)):
            if rr[0] == "refused":
                ctx.count("refused_not_implemented")
                ctx.covered("refused", f"{sclass(s)}.{what}(dim {'tdim-' + str(tdim - d) if d else '0'})")
            elif rr[0] == "raised":
                mon.bad(f"C26/accessor-raises/{k}/{what}", f"{where}.{what}({d}) raised {rr[1]}")
        if rn[0] == "ok":
            n = rn[1]
            if not mon.check(isinstance(n, int) and not isinstance(n, bool) and n >= 0, f"C26/count-not-a-natural-number/{k}", f"{where}.num_sub_entities({d}) = {n!r}"):
                continue
            N[d] = n
            if d < 0 or d > tdim:
                mon.check(n == 0, f"C26/entities-outside-0..tdim/{k}", f"{where}.num_sub_entities({d}) = {n}, but a cell of dimension {tdim} has no entities of dimension {d}", "out_of_range_checks")
            else:
                if n > 0:
                    ctx.add_distinct(("count", s, d))
                if truth is not None:
                    mon.check(n == truth[d], f"C26/count-vs-f-vector/{k}/dim{d}", f"{where}.num_sub_entities({d}) = {n}, the polytope has {truth[d]} entities of dimension {d} (f-vector {truth})", "f_vector_checks")
                if d == tdim:
                    mon.check(n == 1, f"C26/top-entity-count/{k}", f"{where}.num_sub_entities(tdim={tdim}) = {n}, expected 1 (the cell itself)")
        elif 0 <= d <= tdim:
            undecided = True
        if re_[0] == "ok":
            ents = re_[1]
            if not mon.check(isinstance(ents, tuple), f"C26/sub-entities-not-a-tuple/{k}", f"{where}.sub_entities({d}) = {ents!r}"):
                continue
            E[d] = ents
            if rn[0] == "ok":
                mon.check(len(ents) == rn[1], f"C26/len-sub-entities-vs-num/{k}", f"{where}: len(sub_entities({d})) = {len(ents)} but num_sub_entities({d}) = {rn[1]}", "len_vs_num_checks")
            if d < 0 or d > tdim:
                mon.check(len(ents) == 0, f"C26/entities-outside-0..tdim/{k}", f"{where}.sub_entities({d}) = {ents!r}, expected ()", "out_of_range_checks")
            for e in ents:
                ctx.count("sub_entity_objects")
                if not mon.check(isinstance(e, AbstractCell), f"C26/sub-entity-not-a-cell/{k}", f"{where}.sub_entities({d}) contains {e!r} of type {type(e).__name__}"):
                    continue
                te = call(lambda: e.topological_dimension)
                mon.check(te == ("ok", d), f"C26/sub-entity-dimension/{k}/dim{d}", f"{where}.sub_entities({d}) contains {sname(struct(e))} whose topological_dimension is {te!r}", "sub_entity_dimension_checks")
            if d == tdim and len(ents) == 1 and isinstance(ents[0], AbstractCell):
                # the one entity of full dimension must have the same counts as the cell itself
                top = ents[0]
                mine_n = [call(lambda: c.num_sub_entities(q)) for q in range(tdim + 1)]
                top_n = [call(lambda: top.num_sub_entities(q)) for q in range(tdim + 1)]
                mon.check(mine_n == top_n, f"C26/top-entity-counts-differ/{k}", f"{where}.sub_entities(tdim) = ({sname(struct(top))},) with counts {top_n}, the cell itself has {mine_n}", "top_entity_checks")
                if struct(top) != s:
                    ctx.count("top_entity_is_another_cell_object")
            if truth is not None and 0 <= d < tdim and s[0] == "C" and s[1] in ENTITY_TYPES:
                got = Counter(sname(struct(e)) for e in ents if isinstance(e, AbstractCell))
                want = Counter(ENTITY_TYPES[s[1]][d])
                mon.check(got == want, f"C26/entity-types-vs-table/{k}/dim{d}", f"{where}.sub_entities({d}) has types {dict(got)}, the polytope has {dict(want)}", "f_vector_checks")
            if s[0] == "T" and d == 0:
                mon.check(all(struct(e) == ("C", "vertex") for e in ents), f"C26/entity-types-vs-table/{k}/dim0", f"{where}.sub_entities(0) contains non-vertices", "f_vector_checks")
        if rt[0] == "ok" and re_[0] == "ok" and isinstance(rt[1], tuple) and isinstance(re_[1], tuple):
            tys = [struct(e) for e in rt[1]]
            mon.check(len(set(tys)) == len(tys) and set(tys) == {struct(e) for e in re_[1]}, f"C26/sub-entity-types-vs-sub-entities/{k}", f"{where}.sub_entity_types({d}) = {[sname(t) for t in tys]} but sub_entities({d}) has types {sorted({sname(struct(e)) for e in re_[1]})}", "type_set_checks")
        elif (rt[0] == "ok") != (re_[0] == "ok") and "raised" not in (rt[0], re_[0]):
            mon.bad(f"C26/sub-entity-types-vs-sub-entities/{k}", f"{where}: sub_entity_types({d}) -> {rt[0]} but sub_entities({d}) -> {re_[0]}")

    # ---- Euler-Poincare: sum_{d=0}^{tdim} (-1)^d N_d == 1
    if not undecided and all(d in N for d in range(tdim + 1)):
        chi = sum((-1) ** d * N[d] for d in range(tdim + 1))
        mon.check(chi == 1, f"C26/euler-poincare/{k}", f"{where}: sum_d (-1)^d N_d = {chi} for N = {[N[d] for d in range(tdim + 1)]}, expected 1", "euler_checks")
        for d in range(tdim + 1):
            mon.check(N[d] >= comb(tdim + 1, d + 1), f"C26/fewer-faces-than-a-simplex/{k}", f"{where}: N_{d} = {N[d]} < binomial({tdim + 1},{d + 1})", "lower_bound_checks")
        if depth == 0 and tdim >= 2:
            ctx.sample({"cell": me, "counts N_0..N_tdim": [N[d] for d in range(tdim + 1)], "euler_sum": chi, "hand_table": list(truth) if truth else None}, limit=2)
    else:
        ctx.count("euler_undecided_refused")

    # ---- aliases: vertices/edges/faces are dims 0/1/2, facets/ridges/peaks are dims tdim-1/-2/-3
    alias = [("vertices", "num_vertices", "vertex_types", 0), ("edges", "num_edges", "edge_types", 1), ("faces", "num_faces", "face_types", 2), ("facets", "num_facets", "facet_types", tdim - 1), ("ridges", "num_ridges", "ridge_types", tdim - 2), ("peaks", "num_peaks", "peak_types", tdim - 3)]
    for tup_name, num_name, typ_name, d in alias:
        want_n = (truth[d] if 0 <= d <= tdim else 0) if truth is not None else None
        rn = call(lambda: getattr(c, num_name))
        base = call(lambda: c.num_sub_entities(d))
        if rn[0] == "raised":
            mon.bad(f"C26/accessor-raises/{k}/{num_name}", f"{where}.{num_name} raised {rn[1]}")
        elif rn[0] == "refused":
            ctx.count("refused_not_implemented")
            mon.check(base[0] == "refused", f"C26/alias-number/{num_name}/{k}", f"{where}.{num_name} refuses but num_sub_entities({d}) -> {base!r}", "alias_checks")
        else:
            if want_n is not None:
                mon.check(rn[1] == want_n, f"C26/alias-number/{num_name}/{k}", f"{where}.{num_name} = {rn[1]!r}, the polytope has {want_n} entities of dimension {d} (tdim {tdim})", "alias_checks")
            mon.check(base == rn, f"C26/alias-number/{num_name}/{k}", f"{where}.{num_name} = {rn[1]!r} but num_sub_entities({d}) -> {base!r}", "alias_checks")
        for nm, basef in ((tup_name, lambda: c.sub_entities(d)), (typ_name, lambda: c.sub_entity_types(d))):
            ra = call(lambda: getattr(c, nm))
            rb = call(basef)
            if ra[0] == "raised":
                mon.bad(f"C26/accessor-raises/{k}/{nm}", f"{where}.{nm} raised {ra[1]}")
                continue
            if ra[0] == "refused":
                ctx.count("refused_not_implemented")
            if ra[0] != rb[0]:
                mon.check(False, f"C26/alias-entities/{nm}/{k}", f"{where}.{nm} -> {ra[0]} but the accessor for dimension {d} -> {rb[0]}", "alias_checks")
                continue
            if ra[0] != "ok":
                continue
            sa = [struct(e) if isinstance(e, AbstractCell) else ("?", repr(e)) for e in ra[1]]
            sb = [struct(e) if isinstance(e, AbstractCell) else ("?", repr(e)) for e in rb[1]]
            same = sa == sb if nm == tup_name else sorted(sa) == sorted(sb)
            mon.check(same, f"C26/alias-entities/{nm}/{k}", f"{where}.{nm} = {[sname(x) for x in sa]} but dimension {d} (tdim {tdim}) has {[sname(x) for x in sb]}", "alias_checks")
            dims_ok = all(isinstance(e, AbstractCell) and call(lambda: e.topological_dimension) == ("ok", d) for e in ra[1])
            mon.check(dims_ok, f"C26/alias-entities/{nm}/{k}", f"{where}.{nm} contains an entity whose dimension is not {d} (tdim {tdim})", "alias_checks")
            if nm == tup_name and want_n is not None:
                mon.check(len(ra[1]) == want_n, f"C26/alias-entities/{nm}/{k}", f"{where}.{nm} has {len(ra[1])} entries, the polytope has {want_n} entities of dimension {d}", "alias_checks")

    # ---- face-of-a-face, facet bounds, diamond property
    for d in range(1, tdim + 1):
        for e in E.get(d, ()):
            if not isinstance(e, AbstractCell):
                continue
            for kk in range(0, d):
                if kk not in E:
                    continue
                sub = call(lambda: e.sub_entities(kk))
                if sub[0] != "ok":
                    continue
                mine = {struct(x) for x in E[kk]}
                theirs = {struct(x) for x in sub[1] if isinstance(x, AbstractCell)}
                mon.check(theirs <= mine, f"C26/face-of-face-not-a-face/{k}", f"{where}: its {d}-entity {sname(struct(e))} has {kk}-entities of types {sorted(sname(x) for x in theirs)}, the cell only has {sorted(sname(x) for x in mine)}", "face_of_face_checks")
            ne = call(lambda: e.num_sub_entities(0))
            if ne[0] == "ok" and isinstance(ne[1], int):
                mon.check(ne[1] >= d + 1, f"C26/too-few-vertices/{k}", f"{where}: its {d}-entity {sname(struct(e))} has only {ne[1]} vertices", "lower_bound_checks")
    if tdim >= 1 and (tdim - 1) in E:
        facets = [f for f in E[tdim - 1] if isinstance(f, AbstractCell)]
        for f in facets:
            for kk in range(0, tdim):
                nf = call(lambda: f.num_sub_entities(kk))
                if nf[0] != "ok" or kk not in N or not isinstance(nf[1], int):
                    continue
                if kk == 0:
                    mon.check(tdim <= nf[1] < N[0], f"C26/facet-vertex-count/{k}", f"{where}: facet {sname(struct(f))} has {nf[1]} vertices, cell has {N[0]}, dimension {tdim}", "facet_bound_checks")
                else:
                    mon.check(nf[1] <= N[kk], f"C26/facet-has-more-entities-than-cell/{k}", f"{where}: facet {sname(struct(f))} has {nf[1]} entities of dimension {kk}, cell has {N[kk]}", "facet_bound_checks")
        if (tdim - 2) in N and len(facets) == len(E[tdim - 1]):
            ff = [call(lambda: f.num_facets) for f in facets]
            if all(x[0] == "ok" and isinstance(x[1], int) for x in ff):
                tot = sum(x[1] for x in ff)
                ok = mon.check(tot == 2 * N[tdim - 2], f"C26/diamond-property/{k}", f"{where}: sum over facets of their facet counts = {tot}, 2 x num ridges = {2 * N[tdim - 2]}", "diamond_checks" if tdim >= 2 else "diamond_checks_trivial")
                if depth == 0 and tdim >= 3 and ok:
                    ctx.sample({"cell": me, "facets": [sname(struct(f)) for f in facets], "sum_of_facet_facet_counts": tot, "ridges": N[tdim - 2]}, limit=3)
            else:
                ctx.count("diamond_undecided")
        else:
            ctx.count("diamond_undecided")
    elif tdim >= 2:
        ctx.count("diamond_undecided")

    # ---- recursion: every proper sub-entity object is itself a consistent cell
    for d in range(0, tdim):
        for j, e in enumerate(E.get(d, ())):
            if isinstance(e, AbstractCell) and depth < 6:
                check_cell(ctx, mon, e, f"{path + ' / ' if path else ''}{me}.sub_entities({d})[{j}]", depth + 1)
    return tdim


# ---------------------------------------------------------------- enumeration
def named_cells(ctx):
    """Every name of the hand table that ufl knows plus every further name ufl knows."""
    names = list(NAMES)
    table = getattr(ucell, "_sub_entity_celltypes", None)
    if isinstance(table, dict):
        for n in table:
            if n not in names:
                names.append(n)
    out = []
    for n in names:
        r = call(lambda: Cell(n))
        if r[0] == "ok":
            out.append(n)
        elif ctx is not None:
            ctx.count("named_cells_absent")
    return out


def _dim(n):
    return len(FVEC[n]) - 1 if n in FVEC else None


def product_specs(tier):
    """Structures ('T', ...) of all tensor-product cells in scope (deterministic order)."""
    low = [n for n in NAMES if _dim(n) <= 3]
    maxlen = 3 if tier == "quick" else 5
    flat = []
    for ln in range(1, maxlen + 1):
        for combo in itertools.product(low, repeat=ln):
            if sum(_dim(n) for n in combo) <= 3:
                flat.append(("T", tuple(("C", n) for n in combo)))
    nested = []
    twos = [s for s in flat if len(s[1]) == 2]
    ys = ["vertex", "interval"] if tier == "quick" else low
    for x in twos:
        dx = sum(_dim(f[1]) for f in x[1])
        for y in ys:
            if dx + _dim(y) <= 3:
                nested.append(("T", (x, ("C", y))))
                nested.append(("T", (("C", y), x)))
    return flat, nested


def build(s):
    """Construct the real cell for a structure through the public constructors."""
    if s[0] == "C":
        return Cell(s[1])
    return TensorProductCell(*[build(f) for f in s[1]])


def mine(ctx, i):
    return ctx.nsub <= 1 or i % ctx.nsub == ctx.sub


# ---------------------------------------------------------------- the order laws
def order_part(ctx, mon, names, flat, nested):
    # domain: (structure, is_proxy, object)
    dom = []
    for n in names:
        dom.append((("C", n), False, Cell(n)))
    for s in flat + nested:
        dom.append((s, False, build(s)))
    # separately constructed equal copies (all named, every third product)
    for n in names:
        dom.append((("C", n), False, Cell(n)))
    for j, s in enumerate(flat + nested):
        if j % 3 == 0:
            dom.append((s, False, build(s)))
    # the objects handed out as "the cell itself"
    keep = []
    for n in names:
        c = Cell(n)
        keep.append(c)
        r = call(lambda: c.sub_entities(c.topological_dimension))
        if r[0] == "ok" and len(r[1]) == 1 and isinstance(r[1][0], AbstractCell):
            e = r[1][0]
            dom.append((struct(e), is_proxy(e), e))
    m = len(dom)
    if ctx.sub == 0:
        ctx.count("order_domain_size", m)

    def cls(i):
        return sclass(dom[i][0], dom[i][1])

    def nm(i):
        return sname(dom[i][0]) + ("[top entity of itself]" if dom[i][1] else "")

    def pk(*ii):
        # mechanism label: the set of cell classes taking part (sorted, so one key per mechanism)
        return "+".join(sorted({cls(i) for i in ii}))

    # ---- all ordered pairs: the real operators are executed here
    LT = [[None] * m for _ in range(m)]
    for i in range(m):
        a = dom[i][2]
        for j in range(m):
            b = dom[j][2]
            r = call(lambda: a < b)
            LT[i][j] = bool(r[1]) if r[0] == "ok" else None
            if not mine(ctx, i):
                continue
            ctx.count("order_pairs")
            same = dom[i][0] == dom[j][0]
            if not same and i < j:
                ctx.add_distinct(("pair", dom[i][0], dom[j][0], dom[i][1], dom[j][1]))
            if r[0] != "ok":
                mon.check(False, f"C26/order/lt-raises/{pk(i, j)}", f"({nm(i)} < {nm(j)}) raised {r[1]}")
                continue
            if not mon.check(isinstance(r[1], bool), f"C26/order/lt-not-bool/{pk(i, j)}", f"({nm(i)} < {nm(j)}) returned {r[1]!r}"):
                continue
            back = call(lambda: b < a)
            gt = call(lambda: b > a)
            eq = call(lambda: a == b)
            qe = call(lambda: b == a)
            ne = call(lambda: a != b)
            if (i * 31 + j) % 4001 == 7:
                ctx.sample({"a": nm(i), "b": nm(j), "a<b": r[1], "b<a": back[1] if back[0] == "ok" else back[0], "a==b": eq[1] if eq[0] == "ok" else eq[0], "same_structure": same}, limit=4)
            if gt[0] == "ok":
                mon.check(bool(gt[1]) == r[1], f"C26/order/gt-is-not-flipped-lt/{pk(i, j)}", f"({nm(j)} > {nm(i)}) is {gt[1]!r} but ({nm(i)} < {nm(j)}) is {r[1]!r}")
            else:
                mon.check(False, f"C26/order/gt-raises/{pk(i, j)}", f"({nm(j)} > {nm(i)}) -> {gt[1]}")
            if eq[0] == "ok" and qe[0] == "ok" and ne[0] == "ok":
                mon.check(bool(eq[1]) == bool(qe[1]), f"C26/order/eq-not-symmetric/{pk(i, j)}", f"({nm(i)} == {nm(j)}) is {eq[1]!r} but ({nm(j)} == {nm(i)}) is {qe[1]!r}")
                mon.check(bool(eq[1]) == same, f"C26/order/eq-vs-structure/{pk(i, j)}", f"({nm(i)} == {nm(j)}) is {eq[1]!r}, the cells are structurally {'equal' if same else 'different'}")
                mon.check(bool(ne[1]) != bool(eq[1]), f"C26/order/ne-is-not-negated-eq/{pk(i, j)}", f"({nm(i)} != {nm(j)}) is {ne[1]!r}, == is {eq[1]!r}")
                if bool(eq[1]) and same:
                    ha, hb = call(lambda: hash(a)), call(lambda: hash(b))
                    if ha[0] == "ok" and hb[0] == "ok":
                        mon.check(ha[1] == hb[1], f"C26/order/equal-but-different-hash/{pk(i, j)}", f"{nm(i)} == {nm(j)} but the hashes differ")
                    else:
                        ctx.count("hash_refused_unhashable")
            else:
                mon.check(False, f"C26/order/eq-raises/{pk(i, j)}", f"{nm(i)} ==/!= {nm(j)} -> {eq!r} {qe!r} {ne!r}")
            if same:
                # irreflexive, also between separately constructed copies and the cell handed out as top entity
                mon.check(not r[1], f"C26/order/lt-between-equal-cells/{pk(i, j)}", f"({nm(i)} < {nm(j)}) is True although both are the same cell", "irreflexive_checks")
            elif back[0] == "ok":
                mon.check(bool(r[1]) != bool(back[1]), f"C26/order/not-trichotomous/{pk(i, j)}", f"({nm(i)} < {nm(j)}) is {r[1]!r} and ({nm(j)} < {nm(i)}) is {back[1]!r} for different cells", "trichotomy_checks")

    # ---- all triples, on the recorded outcomes of the real `<`
    for i in range(m):
        if not mine(ctx, i):
            continue
        row = LT[i]
        for j in range(m):
            if row[j] is None:
                ctx.count("order_triples_undecided_lt_raised", m)
                ctx.count("order_triples", m)
                continue
            ctx.count("order_triples", m)
            rj = LT[j]
            samej = dom[i][0] == dom[j][0]
            for kk in range(m):
                if row[j]:
                    # transitivity
                    if rj[kk] and row[kk] is False:
                        mon.check(False, f"C26/order/not-transitive/{pk(i, j, kk)}", f"{nm(i)} < {nm(j)} and {nm(j)} < {nm(kk)} but not {nm(i)} < {nm(kk)}")
                elif samej and rj[kk] is not None and row[kk] is not None and rj[kk] != row[kk]:
                    # equal cells compare alike against every third cell
                    mon.check(False, f"C26/order/equal-cells-compare-differently/{pk(i, j, kk)}", f"{nm(i)} and {nm(j)} are the same cell but (x < {nm(kk)}) is {row[kk]} / {rj[kk]}")
    ctx.count("law_checks", sum(m * m for i in range(m) if mine(ctx, i)))

    # ---- sorted(): one ascending sequence whatever the input permutation
    nperm = 320 if ctx.tier == "quick" else 3200
    groups = [("Cell", {"Cell"}), ("with-TensorProductCell", {"Cell", "TensorProductCell"}), ("with-NestedTensorProductCell", {"Cell", "TensorProductCell", "NestedTensorProductCell"}), ("with-TopEntityProxy", {"Cell", "TensorProductCell", "NestedTensorProductCell", "TopEntityProxy"})]
    for gname, allowed in groups:
        idx = [i for i in range(m) if cls(i) in allowed]
        # reference sequence: permutation 0 of this group, recomputed by every worker
        rng0 = random.Random(f"C26/sort/{ctx.seed}/{gname}/0")
        p0 = idx[:]
        rng0.shuffle(p0)
        r0 = call(lambda: sorted(dom[i][2] for i in p0))
        ref = [struct(x) for x in r0[1]] if r0[0] == "ok" else None
        for p in range(nperm // len(groups)):
            if not mine(ctx, p):
                continue
            rng = random.Random(f"C26/sort/{ctx.seed}/{gname}/{p}")
            perm = idx[:]
            rng.shuffle(perm)
            r = call(lambda: sorted(dom[i][2] for i in perm))
            if r[0] != "ok":
                ctx.count("sort_raised")  # the raising comparison itself is reported by the pair law
                ctx.covered("sort_raised", gname)
                continue
            ctx.count("sort_permutations")
            seq = [struct(x) for x in r[1]]
            asc = all(call(lambda: y < x) != ("ok", True) for x, y in zip(r[1], r[1][1:]))
            mon.check(asc, f"C26/order/sorted-not-ascending/{gname}", f"sorted() of {len(perm)} cells has a descent")
            if gname == "Cell":
                ctx.sample({"sorted_named_cells": [sname(x) for x in seq], "equals_reference_permutation": seq == ref}, limit=5)
            if ref is not None:
                mon.check(seq == ref, f"C26/order/sorted-depends-on-input-order/{gname}", f"sorted() of two permutations of the same {len(perm)} cells gives different sequences")
    del keep


# ---------------------------------------------------------------- entry point
def once(ctx):
    mon = Mon(ctx)
    names = named_cells(ctx)
    flat, nested = product_specs(ctx.tier)
    work = [("C", n) for n in names] + flat + nested
    for i, s in enumerate(work):
        if not mine(ctx, i):
            continue
        r = call(lambda: build(s))
        if r[0] != "ok":
            mon.bad(f"C26/constructor-raises/{skey(s)}", f"constructing {sname(s)} -> {r[1]}")
            continue
        c = r[1]
        if not mon.check(struct(c) == s, f"C26/constructor-structure/{skey(s)}", f"constructed {sname(s)} but the object reports {sname(struct(c))}"):
            continue
        ctx.covered("cells", sname(s)) if s[0] == "C" else None
        check_cell(ctx, mon, c, "")
        # a second route to the same cells
        if s[0] == "C":
            for route, f in (("as_cell", lambda: ucell.as_cell(s[1])), ("reconstruct", lambda: c.reconstruct())):
                rr = call(f)
                mon.check(rr[0] == "ok" and struct(rr[1]) == s, f"C26/constructor-structure/{route}", f"{route} of {sname(s)} -> {rr!r}")
            d = _dim(s[1])
            if d is not None and d <= 4:
                for fam, f, want in (("simplex", ucell.simplex, ["vertex", "interval", "triangle", "tetrahedron", "pentatope"]), ("hypercube", ucell.hypercube, ["vertex", "interval", "quadrilateral", "hexahedron", "tesseract"])):
                    if want[d] == s[1]:
                        rr = call(lambda: f(d))
                        if rr[0] == "ok":
                            ok = mon.check(struct(rr[1]) == s, f"C26/family-constructor/{fam}", f"{fam}({d}) gives {rr[1]!r}, expected {s[1]}")
                            tv = truth_fvec(struct(rr[1]))
                            fam_f = tuple(comb(d + 1, k + 1) for k in range(d + 1)) if fam == "simplex" else tuple(2 ** (d - k) * comb(d, k) for k in range(d + 1))
                            if ok:
                                got = tuple(call(lambda: rr[1].num_sub_entities(k))[1] for k in range(d + 1))
                                mon.check(got == fam_f and tv == fam_f, f"C26/family-f-vector/{fam}", f"{fam}({d}) has counts {got}, closed formula gives {fam_f}", "f_vector_checks")
        elif s[0] == "T":
            rr = call(lambda: ucell.as_cell(tuple(_as_tuple(f) for f in s[1])))
            mon.check(rr[0] == "ok" and struct(rr[1]) == s, "C26/constructor-structure/as_cell-tuple", f"as_cell of the tuple for {sname(s)} -> {rr!r}")
    order_part(ctx, mon, names, flat, nested)


def _as_tuple(s):
    return s[1] if s[0] == "C" else tuple(_as_tuple(f) for f in s[1])
