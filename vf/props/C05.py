"""C05 - operators build expressions with the mathematically intended value.

Events: every single construction step  result = op(operand_1, operand_2, ...)  performed through the
public language (Python operators attached to Expr, indexing / slicing / ellipsis / repeated indices,
as_tensor / as_vector / as_matrix, tensor algebra functions, conditionals, math functions, literals),
with operands that provoke every construction-time simplification (zeros with shape and with free
indices, +-1, literal/literal, ints >= 100, complex literals, conj(conj), nested list/component
tensors in natural and permuted index order, shared/repeated free indices).
Oracle: R (vf/rops.py), the API-level definition of the operation on labelled numpy tensors applied
to the interpreter values of the *operands*:   S(result) ~ R_op(S(operand_1), ...)   and declared
shape / free indices / index dimensions of the result equal the ones R implies.
"""

import numpy as np

import ufl
from ufl import as_matrix, as_tensor, as_vector

from .. import oracle
from .. import rops as R
from ..gen import Gen, Universe
from ..jet import IllConditioned
from ..passcheck import node_classes, safe_str, skeleton
from ..seval import CB, S, StructureMismatch
from ..world import Ambiguous, Unsupported

LEVEL = "exploration"
ENGINE = "rops"
TECHNIQUE = "runtime monitoring of every construction step: interpreter value of the built expression vs. API-level numpy definition applied to the operand values"
LEVEL_TEXT = (
    "Each case performs one construction step through the public API on generated operands chosen to trigger the "
    "constructors' simplification branches, evaluates operands and result in an independent interpreter on random cells "
    "and compares the result with an API-level numpy definition of the operation, together with shape, free indices and "
    "index dimensions.  By induction over generated cases every intermediate expression is covered.  Exploration."
)
LEVEL_NOTE = "trusted: vf/rops.py (definitions from the docstrings), vf/seval.py node semantics, numpy; bounds: rank<=3, dims<=3, operand depth<=2"
RULE = (
    "case i = (operation, operand kinds incl. hostile ones, operand expressions, cell, real/complex); distinct = (operation, operand "
    "kinds, operand shapes and free-index pattern, class of the result); non-trivial = UFL accepted and R defines the operation"
)
ASSUMPTIONS = [
    "inner conjugates its second, outer its first argument; A**2 for a tensor A is inner(A, A) (documented)",
    "principal branches for non-integer powers / sqrt / ln; negative integer indices are not exercised",
]
BUDGET = {"quick": 50, "thorough": 450}
NCASES = {"quick": 8000, "thorough": 200000}
FLOORS = {"quick": {"held": 1500, "simplified_held": 200}, "thorough": {"held": 40000, "simplified_held": 5000}}
OPS = [
    "add", "sub", "mul", "div", "pow", "neg", "abs", "conj", "real", "imag", "radd", "rmul", "rsub", "rdiv", "rpow",
    "getitem", "getitem", "getitem", "getitem_bound", "mul_zero_fi", "as_tensor_idx", "as_tensor_idx", "stack", "stack", "stack_rows_views", "dot", "inner", "outer", "cross", "perp",
    "transpose", "tr", "det", "inv", "cofac", "dev", "skew", "sym", "diag", "diag_vector", "elem_mult", "elem_div", "elem_pow",
    "conditional", "sign", "minmax", "math", "atan2", "bessel", "mul_chain", "sum_chain", "unary_chain", "unary_chain",
]
COVER_FLOORS = {"quick": {"ops_held": sorted(set(OPS) - {"rpow"})}, "thorough": {"ops_held": sorted(set(OPS))}}
CELLS = [("interval", 1), ("triangle", 2), ("triangle", 2), ("tetrahedron", 3)]
SHAPES = [(), (), (2,), (3,), (2, 2), (3, 3), (2, 3), (3, 2), (2, 2, 2)]


class Operand:
    def __init__(self, obj, kind):
        self.obj = obj  # UFL expr or python number
        self.kind = kind


def operand(rng, U, G, shape, allow_fi=True, hostile=True, cplx=False):
    shape = tuple(shape)
    r = rng.random()
    i, j, k, l = U.idx  # noqa: E741
    if hostile and shape == () and r < 0.12:
        v = rng.choice([0, 1, -1, 2, 0.5, 100, -117, 1.0, 0.0, 3] + ([1j, 2 - 1j] if cplx else []))
        return Operand(v, "pyliteral")
    if hostile and r < 0.18:
        return Operand(ufl.zero(shape) if shape else ufl.zero(), "zero")
    if hostile and r < 0.23 and allow_fi:
        n = rng.choice([2, 3])
        base = G.expr(shape + (n,), 1)
        return Operand(0 * base[(Ellipsis, i)], "zero-free-index")
    if hostile and r < 0.28 and len(shape) == 2 and shape[0] == shape[1]:
        return Operand(ufl.Identity(shape[0]), "identity")
    if hostile and r < 0.33 and shape == ():
        return Operand(ufl.as_ufl(rng.choice([1, -1, 1.0, 2, 100, 0.25] + ([1j] if cplx else []))), "ufl-literal")
    if r < 0.48 and allow_fi:
        n = rng.choice([2, 3])
        m = rng.choice([2, 3])
        pat = rng.choice(["i", "j", "ij", "ji", "ii"])
        if pat in ("i", "j"):
            e = G.expr(shape + (n,), rng.choice([0, 1]))[(Ellipsis, i if pat == "i" else j)]
        elif pat == "ii":
            e = G.expr(shape + (n, n), rng.choice([0, 1]))[(Ellipsis, i, i)]
        else:
            e = G.expr(shape + (n, m), rng.choice([0, 1]))[(Ellipsis,) + ((i, j) if pat == "ij" else (j, i))]
        return Operand(e, "free-index:" + pat)
    if hostile and r < 0.54 and cplx:
        e = G.expr(shape, 1)
        return Operand(ufl.conj(ufl.conj(e)) if rng.random() < 0.5 else ufl.real(ufl.real(e)), "double-conj")
    return Operand(G.expr(shape, rng.choice([0, 1, 1, 2])), "expr")


def value(o, world, B=CB):
    if not isinstance(o, ufl.core.expr.Expr):
        return R.lit(o), set()
    r = S(o, world, B)
    return R.LT(B.to_complex(r.arr), r.rank, r.fi), set(r.flags)


def comp_spec(rng, U, shape, fi):
    """Random component: ints, slices, one ellipsis, pool indices (possibly repeated / shared)."""
    rank = len(shape)
    spec = []
    py = []
    use_ellipsis = rng.random() < 0.25 and rank >= 1
    n = rank
    ell_at = rng.randrange(rank + 1) if use_ellipsis else None
    covered = rng.randrange(0, rank + 1) if use_ellipsis else 0
    pos = 0
    k = 0
    while k < rank:
        if use_ellipsis and pos == ell_at:
            spec.append(("ellipsis",))
            py.append(Ellipsis)
            k += covered
            pos += 1
            use_ellipsis = False
            continue
        c = rng.random()
        if c < 0.4:
            v = rng.randrange(shape[k])
            spec.append(("int", v))
            py.append(v)
        elif c < 0.6:
            spec.append(("slice",))
            py.append(slice(None))
        else:
            ix = rng.choice(U.idx)
            spec.append(("index", ix.count()))
            py.append(ix)
        k += 1
        pos += 1
    if use_ellipsis:
        spec.append(("ellipsis",))
        py.append(Ellipsis)
    return tuple(spec), tuple(py)


def build(rng, U, G, op, cplx):
    """Returns (ufl result thunk, R thunk over operand LTs, operands, description)."""
    A = lambda sh, **kw: operand(rng, U, G, sh, cplx=cplx, **kw)
    sh = rng.choice(SHAPES)
    if op in ("add", "sub", "radd", "rsub"):
        a = A(sh)
        # second operand with the same free indices: reuse structure by scaling a copy
        b = A(sh, allow_fi=False)
        if isinstance(a.obj, ufl.core.expr.Expr) and a.obj.ufl_free_indices and isinstance(b.obj, ufl.core.expr.Expr):
            b = Operand(a.obj * rng.choice([2, -1, 0.5]) if rng.random() < 0.5 else a.obj, "same-indices")
        if op == "add":
            return (lambda: a.obj + b.obj), (lambda x, y: R.add(x, y)), [a, b]
        if op == "sub":
            return (lambda: a.obj - b.obj), (lambda x, y: R.sub(x, y)), [a, b]
        c = Operand(rng.choice([0, 1, 2.5, -3]), "pyliteral")
        a = A(()) if op == "rsub" or c.obj != 0 else a
        if op == "radd":
            return (lambda: c.obj + a.obj), (lambda x, y: y if (c.obj == 0 and y.rank) else R.add(x, y)), [c, a]
        return (lambda: c.obj - a.obj), (lambda x, y: R.sub(x, y)), [c, a]
    if op in ("mul", "rmul"):
        kind = rng.choice(["ss", "ss", "st", "ts", "mv", "mm"])
        if kind == "ss":
            a, b = A(()), A(())
        elif kind == "st":
            a, b = A(()), A(sh)
        elif kind == "ts":
            a, b = A(sh), A(())
        elif kind == "mv":
            n, m = rng.choice([2, 3]), rng.choice([2, 3])
            a, b = A((n, m)), A((m,))
        else:
            n, m, p = rng.choice([2, 3]), rng.choice([2, 3]), rng.choice([2, 3])
            a, b = A((n, m)), A((m, p))
        if op == "rmul":
            a = Operand(rng.choice([0, 1, -1, 2, 0.5]), "pyliteral")
        return (lambda: a.obj * b.obj), R.mul, [a, b]
    if op == "mul_zero_fi":
        # products that fold to zero although BOTH operands carry free indices, in both operand orders and with the
        # younger index on either side (the folded Zero must list the merged indices like the unfolded product)
        i, j, k, _ = U.idx
        ia, ib = rng.sample([i, j, k], 2)
        n, m = rng.choice([2, 3]), rng.choice([2, 3])
        kind = rng.choice(["s*t", "t*s", "s*s", "m*v"])
        if kind == "s*s":
            x, y = G.expr((n,), 1)[ia], 0 * G.expr((m,), 1)[ib]
        elif kind == "m*v":
            x, y = G.expr((n, 2, m), 0)[ia, :, :], (0 * G.expr((m, n), 0))[:, ib]
        else:
            x, y = G.expr((n,), 1)[ia], (0 * G.expr((m, 2), 1))[ib, :]
        if kind == "t*s" or rng.random() < 0.3:
            x, y = y, x
        a, b = Operand(x, "free-index"), Operand(y, "zero-free-index-tensor")
        return (lambda: a.obj * b.obj), R.mul, [a, b]
    if op in ("div", "rdiv"):
        a, b = A(sh), A(())
        if op == "rdiv":
            a = Operand(rng.choice([0, 1, 2, -0.5]), "pyliteral")
        return (lambda: a.obj / b.obj), R.div, [a, b]
    if op in ("pow", "rpow"):
        a = A(()) if rng.random() < 0.85 else A(sh)
        if op == "pow" and rng.random() < 0.25:
            # a power of a power (the base values change sign / are complex: (f**2)**0.5 is |f|, not f)
            a = Operand(G.expr((), rng.choice([0, 1])) ** rng.choice([2, 2, 4, -2, 3, 0.5]), "power")
        b = Operand(rng.choice([0, 1, 2, 3, -1, -2, 0.5, 2.0, 1.5]), "pyliteral") if rng.random() < 0.7 else A((), allow_fi=False)
        if op == "rpow":
            a, b = Operand(rng.choice([2, 0.5, 3]), "pyliteral"), A((), allow_fi=False)
        return (lambda: a.obj**b.obj), R.power, [a, b]
    if op in ("neg", "abs", "conj", "real", "imag"):
        a = A(sh)
        f = {"neg": lambda x: -x, "abs": abs, "conj": ufl.conj, "real": ufl.real, "imag": ufl.imag}[op]
        r = {"neg": R.neg, "abs": R.absolute, "conj": R.conj, "real": R.real, "imag": R.imag}[op]
        return (lambda: f(ufl.as_ufl(a.obj))), r, [a]
    if op == "getitem":
        sh2 = rng.choice([s for s in SHAPES if s])
        a = A(sh2, hostile=rng.random() < 0.5)
        if not isinstance(a.obj, ufl.core.expr.Expr):
            a = Operand(G.expr(sh2, 1), "expr")
        spec, py = comp_spec(rng, U, sh2, a.obj.ufl_free_indices)
        key = py[0] if len(py) == 1 and rng.random() < 0.5 else py
        return (lambda: a.obj[key]), (lambda x: R.getitem(x, spec)), [a]
    if op == "getitem_bound":
        # index a tensor-valued expression with the very Index objects it binds inside (summation / component
        # tensor indices): the indexing shortcuts must not capture them
        i, j, k, _ = U.idx
        n, m = rng.choice([2, 3]), rng.choice([2, 3])
        pat = rng.choice(["sum-slice", "sum-slice2", "sum-ii", "ct-perm", "ct-sum", "nested-sum"])
        if pat == "sum-slice":
            base = G.expr((n,), 1)[i] * G.expr((n, m), 1)[i, :]
        elif pat == "sum-slice2":
            base = G.expr((n, m, m), 0)[i, :, :] * G.expr((n,), 1)[i]
        elif pat == "sum-ii":
            base = G.expr((m, n, n), 0)[:, i, i]
        elif pat == "ct-perm":
            base = as_tensor(G.expr((n, m), 1)[i, j], (j, i))
        elif pat == "ct-sum":
            base = as_tensor(G.expr((n, m), 1)[i, j] * G.expr((n,), 0)[i], (j,))
        else:
            inner_s = G.expr((n,), 0)[j] * G.expr((n, m), 0)[j, :]
            base = G.expr((m,), 0)[i] * as_tensor(inner_s[i] * G.expr((m,), 0)[k], (i, k))[i, :]
        a = Operand(base, "bound:" + pat)
        sh2 = tuple(base.ufl_shape)
        spec, py = [], []
        for d in sh2:
            c = rng.random()
            if c < 0.75:
                ix = rng.choice([i, i, j, k])
                spec.append(("index", ix.count()))
                py.append(ix)
            elif c < 0.9:
                v = rng.randrange(d)
                spec.append(("int", v))
                py.append(v)
            else:
                spec.append(("slice",))
                py.append(slice(None))
        spec, py = tuple(spec), tuple(py)
        key = py[0] if len(py) == 1 else py
        return (lambda: a.obj[key]), (lambda x: R.getitem(x, spec)), [a]
    if op == "as_tensor_idx":
        i, j, k, _ = U.idx
        pat = rng.choice(["i", "ij", "ji", "ijk", "kij", "i_of_ij", "nested"])
        n, m, p = rng.choice([2, 3]), rng.choice([2, 3]), 2
        if pat == "i":
            a = Operand(G.expr((n,), 1)[i] * G.expr((), 1) + G.expr((n,), 0)[i], "indexed")
            idx = (i,)
        elif pat in ("ij", "ji"):
            a = Operand(G.expr((n, m), 1)[i, j] + G.expr((n,), 0)[i] * G.expr((m,), 0)[j], "indexed")
            idx = (i, j) if pat == "ij" else (j, i)
        elif pat in ("ijk", "kij"):
            a = Operand(G.expr((n, m, p), 0)[i, j, k], "indexed")
            idx = (i, j, k) if pat == "ijk" else (k, i, j)
        elif pat == "i_of_ij":
            a = Operand(G.expr((n, m), 1)[i, j], "indexed")
            idx = (i,)
        else:
            inner_t = as_tensor(G.expr((n, m), 1)[i, j], (j, i))
            a = Operand(inner_t[j, i] * 2 + inner_t[j, i], "indexed-ct")
            idx = (i, j)
        cs = tuple(x.count() for x in idx)
        return (lambda: as_tensor(a.obj, idx)), (lambda x: R.as_tensor_indices(x, cs)), [a]
    if op == "stack":
        sub = rng.choice([(), (), (2,), (3,), (2, 2)])
        n = rng.choice([1, 2, 3])
        rows = [A(sub, allow_fi=False) for _ in range(n)]
        if rng.random() < 0.3:
            # rows sharing one free index
            i = U.idx[0]
            base = [G.expr(sub + (2,), 1) for _ in range(n)]
            rows = [Operand(b[(Ellipsis, i)], "free-index:i") for b in base]
        if sub == () and rng.random() < 0.5:
            return (lambda: as_vector([r.obj for r in rows])), (lambda *xs: R.stack(list(xs))), rows
        return (lambda: as_tensor([r.obj for r in rows])), (lambda *xs: R.stack(list(xs))), rows
    if op == "stack_rows_views":
        # rows that are indexed views / component tensors of ONE tensor, natural or permuted order
        i, j, k, _ = U.idx
        n = rng.choice([2, 3])
        m = rng.choice([2, 3])
        Bt = G.expr((n, m, m), 0) if rng.random() < 0.5 else G.expr((n, m), 0)
        a = Operand(Bt, "expr")
        variant = rng.choice(["natural", "permuted-ct", "permuted-rows", "partial", "indexed-rows"])
        if len(Bt.ufl_shape) == 3:
            if variant == "natural":
                f = lambda: as_tensor([as_tensor(Bt[r, i, j], (i, j)) for r in range(n)])
                rf = lambda x: x
            elif variant == "permuted-ct":
                f = lambda: as_tensor([as_tensor(Bt[r, i, j], (j, i)) for r in range(n)])
                rf = lambda x: R.LT(np.swapaxes(x.arr, 1, 2), 3, x.fi)
            elif variant == "permuted-rows":
                perm = list(range(n))
                rng.shuffle(perm)
                f = lambda: as_tensor([Bt[r, :, :] for r in perm])
                rf = lambda x: R.LT(x.arr[perm], 3, x.fi)
            elif variant == "partial":
                c = rng.randrange(m)
                f = lambda: as_tensor([Bt[r, c, :] for r in range(n)])
                rf = lambda x: R.LT(x.arr[:, c, :], 2, x.fi)
            else:
                f = lambda: as_tensor([[Bt[r, c, c] for c in range(m)] for r in range(n)])
                rf = lambda x: R.LT(np.stack([[x.arr[r, c, c] for c in range(m)] for r in range(n)]), 2, x.fi)
        else:
            if variant in ("natural", "indexed-rows"):
                f = lambda: as_tensor([Bt[r, :] for r in range(n)])
                rf = lambda x: x
            elif variant == "permuted-ct":
                f = lambda: as_tensor([as_tensor(Bt[r, i], (i,)) for r in reversed(range(n))])
                rf = lambda x: R.LT(x.arr[::-1], 2, x.fi)
            elif variant == "permuted-rows":
                perm = list(range(n))
                rng.shuffle(perm)
                f = lambda: as_tensor([Bt[r, :] for r in perm])
                rf = lambda x: R.LT(x.arr[perm], 2, x.fi)
            else:
                f = lambda: as_tensor([[Bt[r, c] for c in reversed(range(m))] for r in range(n)])
                rf = lambda x: R.LT(x.arr[:, ::-1], 2, x.fi)
        return f, rf, [a]
    if op in ("dot", "inner", "outer"):
        if op == "dot":
            ra, rb = rng.choice([(0, 0), (1, 1), (2, 1), (1, 2), (2, 2), (3, 1)])
            kdim = rng.choice([2, 3])
            sa = tuple(rng.choice([2, 3]) for _ in range(max(ra - 1, 0))) + ((kdim,) if ra else ())
            sb = ((kdim,) if rb else ()) + tuple(rng.choice([2, 3]) for _ in range(max(rb - 1, 0)))
        elif op == "inner":
            sa = sb = sh
        else:
            sa, sb = rng.choice([(), (2,), (3,), (2, 2)]), rng.choice([(), (2,), (3,), (2, 3)])
        fi_a = rng.random() < 0.2
        a = A(sa, allow_fi=fi_a)
        b = A(sb, allow_fi=False)
        return (lambda: getattr(ufl, op)(a.obj, b.obj)), getattr(R, op), [a, b]
    if op == "cross":
        a, b = A((3,), allow_fi=False), A((3,), allow_fi=False)
        return (lambda: ufl.cross(a.obj, b.obj)), R.cross, [a, b]
    if op == "perp":
        a = A((2,))
        return (lambda: ufl.perp(a.obj)), R.perp, [a]
    if op == "transpose":
        s2 = rng.choice([(2, 2), (2, 3), (3, 2), ()])
        a = A(s2)
        if rng.random() < 0.5 and s2:
            return (lambda: ufl.as_ufl(a.obj).T), R.transpose, [a]
        return (lambda: ufl.transpose(a.obj)), R.transpose, [a]
    if op in ("tr", "det", "inv", "cofac", "dev", "skew", "sym", "diag_vector"):
        n = rng.choice([2, 3] if op != "det" else [1, 2, 3])
        fi_ok = op in ("tr", "dev", "skew", "sym", "diag_vector")
        a = A((n, n), allow_fi=fi_ok, hostile=op not in ("inv", "cofac"))
        if op in ("inv",) and isinstance(a.obj, ufl.core.expr.Expr):
            a = Operand(a.obj + 4 * ufl.Identity(n), "expr+4I")
        return (lambda: getattr(ufl, op)(a.obj)), getattr(R, op), [a]
    if op == "diag":
        n = rng.choice([2, 3])
        a = A(rng.choice([(n,), (n, n)]))
        return (lambda: ufl.diag(a.obj)), R.diag, [a]
    if op in ("elem_mult", "elem_div", "elem_pow"):
        s2 = rng.choice([(), (2,), (2, 2), (3,)])
        a = A(s2, allow_fi=False)
        b = A(s2, allow_fi=False, hostile=op == "elem_mult")
        if op == "elem_div" and isinstance(b.obj, ufl.core.expr.Expr):
            b = Operand(b.obj + ufl.as_tensor(np.full(s2, 5.0).tolist()) if s2 else b.obj + 5, "expr+5")
        if op == "elem_pow":
            b = Operand(ufl.as_tensor(np.full(s2, 2).tolist()) if s2 else 2, "twos")
        return (lambda: getattr(ufl, op)(a.obj, b.obj)), (lambda x, y: R.elem(op[5:], x, y)), [a, b]
    if op == "conditional":
        ca, cb = A((), allow_fi=False, hostile=False), A((), allow_fi=False, hostile=False)
        if rng.random() < 0.25:
            cb = ca  # an exact tie: the very same operand on both sides (lt, gt, ne false; le, ge, eq true)
        rel = rng.choice(["lt", "gt", "le", "ge", "eq", "ne", "and", "or", "not", "not", "not-le", "not-ge", "not-gt"])
        t, f = A(sh), A(sh, allow_fi=False)
        if isinstance(t.obj, ufl.core.expr.Expr) and t.obj.ufl_free_indices:
            f = Operand(t.obj * 2, "same-indices")
        cc = A((), allow_fi=False, hostile=False)

        def mk():
            ra = ufl.real(ca.obj) if cplx else ca.obj
            rb = ufl.real(cb.obj) if cplx else cb.obj
            rc = ufl.real(cc.obj) if cplx else cc.obj
            if rel in ("lt", "gt", "le", "ge", "eq", "ne"):
                c = getattr(ufl, rel)(ra, rb)
            elif rel == "and":
                c = ufl.And(ufl.lt(ra, rb), ufl.gt(rc, 0.25))
            elif rel == "or":
                c = ufl.Or(ufl.lt(ra, rb), ufl.gt(rc, 0.25))
            elif rel == "not":
                c = ufl.Not(ufl.lt(ra, rb))
            else:
                c = ufl.Not(getattr(ufl, rel[4:])(ra, rb))
            return ufl.conditional(c, t.obj, f.obj)

        def rr(x, y, z, tt, ff):
            x, y, z = (R.real(x), R.real(y), R.real(z)) if cplx else (x, y, z)
            if rel in ("lt", "gt", "le", "ge", "eq", "ne"):
                c = R.compare(rel, x, y)
            elif rel == "and":
                c = R.logical("and", R.compare("lt", x, y), R.compare("gt", z, R.lit(0.25)))
            elif rel == "or":
                c = R.logical("or", R.compare("lt", x, y), R.compare("gt", z, R.lit(0.25)))
            elif rel == "not":
                c = R.logical("not", R.compare("lt", x, y))
            else:
                c = R.logical("not", R.compare(rel[4:], x, y))
            return R.conditional(c, tt, ff)

        return mk, rr, [ca, cb, cc, t, f]
    if op == "sign":
        a = A((), hostile=False)
        return (lambda: ufl.sign(ufl.real(a.obj) if cplx else a.obj)), (lambda x: R.sign(R.real(x) if cplx else x)), [a]
    if op == "minmax":
        which = rng.choice(["max", "min"])
        a, b = A((), hostile=rng.random() < 0.3), A((), allow_fi=False)
        fn = ufl.max_value if which == "max" else ufl.min_value
        return (lambda: fn(ufl.real(a.obj) if cplx else a.obj, ufl.real(b.obj) if cplx else b.obj)), (
            lambda x, y: R.minmax(which, R.real(x) if cplx else x, R.real(y) if cplx else y)), [a, b]
    if op == "math":
        name = rng.choice(["sqrt", "exp", "ln", "sin", "cos", "tan", "sinh", "cosh", "tanh", "asin", "acos", "atan", "erf"])
        a = A((), hostile=rng.random() < 0.4)
        pre = {"sqrt": lambda x: 3 + x * x if not cplx else x, "ln": lambda x: 3 + x * x if not cplx else 2 + x, "exp": lambda x: 0.125 * x, "sinh": lambda x: 0.125 * x,
               "cosh": lambda x: 0.125 * x, "asin": lambda x: 0.7 * ufl.tanh(x) if not cplx else 0.25 * ufl.tanh(ufl.real(x)),
               "acos": lambda x: 0.7 * ufl.tanh(x) if not cplx else 0.25 * ufl.tanh(ufl.real(x)), "tan": lambda x: 0.5 * ufl.tanh(x) if not cplx else 0.5 * ufl.tanh(ufl.real(x))}.get(name, lambda x: x)
        b = Operand(pre(ufl.as_ufl(a.obj)), "prepared")
        return (lambda: getattr(ufl, name)(b.obj)), (lambda x: R.mathfn(name, x)), [b]
    if op == "atan2":
        if cplx:
            return None
        a, b = A((), hostile=False), A((), allow_fi=False, hostile=False)
        b2 = Operand(3 + ufl.as_ufl(b.obj) ** 2, "prepared")
        return (lambda: ufl.atan2(a.obj, b2.obj)), R.atan2, [a, b2]
    if op == "bessel":
        if cplx:
            return None
        kind = rng.choice("JYIK")
        nu = rng.choice([0, 1, 2])
        a = A((), allow_fi=rng.random() < 0.3, hostile=False)
        b = Operand(2 + ufl.as_ufl(a.obj) ** 2 if not ufl.as_ufl(a.obj).ufl_free_indices else 2 + abs(ufl.as_ufl(a.obj)), "prepared")
        fn = {"J": ufl.bessel_J, "Y": ufl.bessel_Y, "I": ufl.bessel_I, "K": ufl.bessel_K}[kind]
        return (lambda: fn(nu, b.obj)), (lambda x: R.bessel(kind, nu, x)), [b]
    if op == "unary_chain":
        # the same / related unary operators applied repeatedly: abs(abs(.)), conj(conj(.)), abs(conj(.)), real(conj(.)), ...
        names = [rng.choice(["abs", "conj", "real", "imag", "neg", "abs"]) for _ in range(rng.choice([2, 2, 3]))]
        a = A(sh, hostile=rng.random() < 0.3)
        fs = {"neg": lambda x: -x, "abs": abs, "conj": ufl.conj, "real": ufl.real, "imag": ufl.imag}
        rs = {"neg": R.neg, "abs": R.absolute, "conj": R.conj, "real": R.real, "imag": R.imag}

        def mk():
            r = ufl.as_ufl(a.obj)
            for nme in names:
                r = fs[nme](r)
            return r

        def rr(x):
            for nme in names:
                x = rs[nme](x)
            return x

        return mk, rr, [a]
    if op == "mul_chain":
        xs = [A(()) for _ in range(rng.choice([3, 4]))]

        def mk():
            r = xs[0].obj
            for x in xs[1:]:
                r = r * x.obj
            return r

        def rr(*vs):
            r = vs[0]
            for v in vs[1:]:
                r = R.mul(r, v)
            return r

        if not isinstance(xs[0].obj, ufl.core.expr.Expr) and not isinstance(xs[1].obj, ufl.core.expr.Expr):
            xs[0] = Operand(ufl.as_ufl(xs[0].obj), "ufl-literal")
        return mk, rr, xs
    if op == "sum_chain":
        xs = [A((), allow_fi=False) for _ in range(rng.choice([3, 4]))]
        if not isinstance(xs[0].obj, ufl.core.expr.Expr) and not isinstance(xs[1].obj, ufl.core.expr.Expr):
            xs[0] = Operand(ufl.as_ufl(xs[0].obj), "ufl-literal")

        def mk():
            r = xs[0].obj
            for x in xs[1:]:
                r = r + x.obj
            return r

        def rr(*vs):
            r = vs[0]
            for v in vs[1:]:
                r = R.add(r, v)
            return r

        return mk, rr, xs
    return None


def case(ctx, i, rng):
    cell, gdim = rng.choice(CELLS)
    cplx = rng.random() < 0.3
    U = Universe(rng, cell, gdim, "cell", cplx)
    G = Gen(U, rng, cplx=cplx, deriv=0, geom=rng.random() < 0.3, cond=rng.random() < 0.3, math=rng.random() < 0.5)
    op = OPS[i % len(OPS)] if rng.random() < 0.85 else rng.choice(OPS)
    try:
        spec = build(rng, U, G, op, cplx)
    except Exception as ex:
        ctx.count("operand_build_rejected")
        ctx.covered("operand_build_rejected_with", type(ex).__name__ + ":" + op)
        return
    if spec is None:
        ctx.count("not_applicable")
        return
    mk, rfun, ops = spec
    kinds = tuple(o.kind for o in ops)
    try:
        res = mk()
    except Exception as ex:
        ctx.count("rejected")
        ctx.covered("rejected_with", op + ":" + type(ex).__name__)
        return
    if not isinstance(res, ufl.core.expr.Expr):
        res = ufl.as_ufl(res)
    ctx.count("accepted")
    worlds = oracle.worlds_for(rng, cell, gdim, "cell", cplx, n=2)
    verdicts = []
    detail = None
    struct_bad = None
    for w in worlds:
        try:
            vals = []
            flags = set()
            for o in ops:
                v, fl = value(o.obj, w)
                vals.append(v)
                flags |= fl
        except (Unsupported, Ambiguous, StructureMismatch, IllConditioned, RecursionError, OverflowError) as ex:
            verdicts.append("skipped")
            ctx.covered("skip_reasons", type(ex).__name__)
            continue
        try:
            with np.errstate(all="ignore"):
                exp = rfun(*vals)
        except R.RDimMismatch:
            verdicts.append("dim-mismatch-accepted")
            continue
        except R.RReject:
            verdicts.append("r-rejects")
            continue
        except R.RUnknown:
            verdicts.append("r-unknown")
            continue
        except np.linalg.LinAlgError:
            verdicts.append("inconclusive")
            continue
        rfi = tuple(res.ufl_free_indices)
        if rfi != tuple(sorted(set(rfi))):
            # the free indices of every expression are listed in increasing order without repetition (every consumer,
            # e.g. the addition of two terms, compares these tuples)
            struct_bad = ((tuple(res.ufl_shape), rfi, tuple(res.ufl_index_dimensions)), (tuple(exp.shape), tuple(exp.fi), tuple(exp.arr.shape[exp.rank :])))
            verdicts.append("disagree")
            continue
        try:
            got, fl2 = value(res, w)
            flags |= fl2
        except StructureMismatch as ex:
            verdicts.append("disagree")
            detail = "result is structurally inconsistent: " + str(ex)
            continue
        except RecursionError:
            verdicts.append("disagree")
            detail = "result is not a finite tree (a node reachable from itself): evaluation recursed without end"
            continue
        except (Unsupported, Ambiguous, IllConditioned):
            verdicts.append("skipped")
            continue
        # declared structure
        decl = (tuple(res.ufl_shape), tuple(res.ufl_free_indices), tuple(res.ufl_index_dimensions))
        want = (tuple(exp.shape), tuple(exp.fi), tuple(exp.arr.shape[exp.rank :]))
        if decl != want:
            struct_bad = (decl, want)
            verdicts.append("disagree")
            continue
        if got.arr.shape != exp.arr.shape:
            verdicts.append("disagree")
            detail = f"value array shape {got.arr.shape} vs {exp.arr.shape}"
            continue
        if not (np.all(np.isfinite(got.arr)) and np.all(np.isfinite(exp.arr))):
            verdicts.append("inconclusive")
            continue
        scale = max(1.0, float(np.max(np.abs(exp.arr), initial=0.0)), float(np.max(np.abs(got.arr), initial=0.0)))
        err = float(np.max(np.abs(got.arr - exp.arr), initial=0.0)) / scale
        if err <= 1e-9:
            verdicts.append("agree")
        elif err > 1e-6 and not flags and _well_conditioned(op, vals):
            # confirm the interpreter side at 50 digits
            try:
                B = oracle.mp_backend()
                got2, fl3 = value(res, w, B)
                vals2 = [value(o.obj, w, B)[0] for o in ops]
                exp2 = rfun(*vals2)
                err2 = float(np.max(np.abs(got2.arr - exp2.arr), initial=0.0)) / scale
            except Exception:
                err2 = None
            if err2 is not None and err2 > 1e-6:
                verdicts.append("disagree")
                detail = f"value differs: rel. err {err:.3g} (50-digit re-evaluation {err2:.3g})"
            else:
                verdicts.append("inconclusive")
        else:
            verdicts.append("inconclusive")
    for v in verdicts:
        ctx.count("sample_" + v)
    simplified = _simplified(op, res)
    if "disagree" in verdicts:
        ctx.count("violated")
        rescls = type(res).__name__
        if struct_bad:
            key = f"C05/{op}/declared-structure/{'+'.join(kinds)}->{rescls}"
            desc = f"{op}: declared (shape, free indices, dims) {struct_bad[0]} but the operation implies {struct_bad[1]}"
        else:
            key = f"C05/{op}/value/{'+'.join(kinds)}->{rescls}"
            desc = f"{op}: {detail}"
        ctx.violation(key, desc, {"operands": [safe_str(o.obj, 300) for o in ops], "result": safe_str(res), "kinds": kinds})
    elif verdicts.count("agree") >= 1 and "inconclusive" not in verdicts[:1]:
        ctx.count("held")
        ctx.covered("ops_held", op)
        ctx.covered("result_classes", type(res).__name__)
        if simplified:
            ctx.count("simplified_held")
        ctx.add_distinct((op, kinds, tuple(_sig(o.obj) for o in ops), type(res).__name__))
        ctx.sample({"op": op, "operand_kinds": kinds, "operands": [str(o.obj)[:100] for o in ops], "result_class": type(res).__name__})
    elif "dim-mismatch-accepted" in verdicts:
        ctx.count("violated")
        ctx.violation(f"C05/{op}/accepts-one-index-over-different-dimensions",
                      f"{op}: UFL accepted operands in which one Index object ranges over two different dimensions",
                      {"operands": [safe_str(o.obj, 300) for o in ops], "result": safe_str(res), "kinds": kinds})
    elif "r-rejects" in verdicts:
        ctx.count("r_rejects_but_ufl_accepts")
        ctx.covered("r_rejects_but_ufl_accepts", op + ":" + "+".join(kinds))
    else:
        ctx.count("undecided")


def _sig(o):
    if not isinstance(o, ufl.core.expr.Expr):
        return ("py", type(o).__name__)
    return (tuple(o.ufl_shape), len(o.ufl_free_indices))


def _well_conditioned(op, vals):
    if op in ("inv", "cofac", "det"):
        a = vals[0].arr
        try:
            return a.ndim == 2 and np.linalg.cond(a) < 1e4
        except Exception:
            return False
    return True


_EXPECTED_TOP = {
    "add": "Sum", "sub": "Sum", "mul": None, "div": None, "pow": "Power", "neg": None, "abs": "Abs", "conj": "Conj", "real": "Real", "imag": "Imag",
    "dot": "Dot", "inner": "Inner", "outer": "Outer", "cross": "Cross", "perp": "Perp", "transpose": "Transposed", "tr": "Trace", "det": "Determinant",
    "inv": "Inverse", "cofac": "Cofactor", "dev": "Deviatoric", "skew": "Skew", "sym": "Sym", "conditional": "Conditional", "stack": "ListTensor",
    "stack_rows_views": "ListTensor", "as_tensor_idx": "ComponentTensor", "getitem": None, "getitem_bound": None, "mul_zero_fi": None, "minmax": None, "sign": "Conditional",
}


def _simplified(op, res):
    """Did construction return something other than the plain node of the requested operation?"""
    want = _EXPECTED_TOP.get(op, "?")
    if want in (None, "?"):
        return type(res).__name__ in ("Zero", "IntValue", "FloatValue", "ComplexValue") or res._ufl_is_terminal_
    return type(res).__name__ != want
