"""C18 - the estimated polynomial degree never underestimates the true degree.

Events: `estimate_total_polynomial_degree(integrand)` on the integrand as written (may refuse compound
operators: "apply preprocessing first") and on the preprocessed integrand (algebra lowering + derivative
expansion, exactly what compute_form_data hands to the estimator), `attach_estimated_degrees(form)`, and the
`estimated_polynomial_degree` metadata that `compute_form_data` finally delivers.
Oracle: the TRUE total degree of the integrand as a polynomial in the coordinates of an affine simplex cell,
measured in exact rational arithmetic: the reference interpreter evaluates the integrand at consecutive
integer parameters of random rational lines (inside the facet for facet integrals) through cells with
dyadic vertices and polynomial fields whose component c has exactly the degree of the leaf element that owns
c; the degree is the order of the highest non-vanishing forward difference.  estimate >= true degree.
Over-estimation is never a violation.
"""

import itertools
import random
import warnings

import ufl
from ufl.algorithms import compute_form_data
from ufl.algorithms.compute_form_data import attach_estimated_degrees, preprocess_form
from ufl.algorithms.estimate_degrees import estimate_total_polynomial_degree

from .. import elements as E
from ..c18_exact import DegreeTooHigh, ExactBackend, NotPolynomial, Probe, UnknownNode, true_degree
from ..gen import Gen, Universe
from ..jet import IllConditioned
from ..passcheck import node_classes, safe_str, skeleton, subexpressions
from ..seval import StructureMismatch
from ..world import Ambiguous, Unsupported, element_leaves, pullback_kind

LEVEL = "exploration"
ENGINE = "exactdeg"
TECHNIQUE = (
    "runtime monitoring of the real degree estimator against the exact degree measured by rational evaluation "
    "along random lines (finite differences, no tolerance)"
)
LEVEL_TEXT = (
    "The real estimate_total_polynomial_degree / attach_estimated_degrees / compute_form_data are run on polynomial "
    "integrands (a systematic sweep over every fixed component of every catalogue element, as Coefficient and as Argument, "
    "in a dozen operator contexts, plus generated polynomial integrands and forms); each estimate is compared with the "
    "integrand's true degree on an affine cell, measured exactly by an independent interpreter in Fraction arithmetic.  "
    "Exploration over enumerated and generated cases."
)
LEVEL_NOTE = (
    "trusted: vf/seval.py + vf/world.py (value of an expression at a point, push-forwards, component layout of mixed and "
    "symmetric elements), vf/c18_exact.py (difference table; the number of points comes from a crude structural bound that "
    "is itself checked by two extra points); bounds: affine simplex cells (incl. immersed ones), element degree <= 3, "
    "measured degree <= 22"
)
RULE = (
    "case i < len(SWEEP): (cell, element, Coefficient|Argument, fixed component, operator context) enumerated completely; "
    "case i >= len(SWEEP): seeded polynomial integrand(s) from the typed generator (sum, product, integer power, division by "
    "constants, indexing with fixed and free indices, tensor algebra, spatial derivatives, constant-condition conditionals, "
    "variables) over a random element subset, integral type cell / exterior facet / interior facet; "
    "distinct = (event kind, cell, gdim, integral type, elements involved, skeleton depth 2 of the estimated expression, true degree); "
    "non-trivial = the estimator returned a number and the measured true degree is >= 1"
)
ASSUMPTIONS = [
    "a field in a space with element e is any polynomial whose reference component c has total degree <= embedded_superdegree "
    "of the leaf sub-element owning c (the harness uses exactly that degree with all coefficients non-zero)",
    "the degree of a facet integrand is its degree along lines inside the facet",
    "conditionals are only used with conditions that are constant on the cell (the integrand is then a polynomial); "
    "abs / min / max / division by non-constants are outside the property and not generated",
    "a float literal with an integer value (f**3.0) is an integer power",
    "estimate_total_polynomial_degree may refuse (raise) on un-preprocessed compound operators; that is counted, not judged",
]
BUDGET = {"quick": 45, "thorough": 420}
CASE_TIMEOUT = 30.0
EVAL_COUNTER = "events_judged"

QB = ExactBackend()

CELLS = [("interval", 1), ("interval", 2), ("interval", 3), ("triangle", 2), ("triangle", 3), ("tetrahedron", 3)]
HETERO = ["MixP2P1", "MixRTDG", "MixNest", "Sym", "MixSymP1", "SymDG", "MixSymDG", "MixN1P3", "MixRT1DG2DG0"]


def _symT(cell, degs, n, leaf):
    symmetry = {}
    subs = []
    k = 0
    for i in range(n):
        for j in range(i, n):
            symmetry[(i, j)] = k
            symmetry[(j, i)] = k
            subs.append(leaf(cell, degs[k % len(degs)]))
            k += 1
    return E.VSymmetric(symmetry, subs)


_POOLS = {}


def pool(cell, gdim):
    """The shared catalogue plus a few more elements with sub-elements of different degrees (discontinuous
    symmetric tensors for interior facets, Piola sub-elements in first / middle position)."""
    key = (cell, gdim)
    if key not in _POOLS:
        cat = dict(E.catalogue(cell, gdim))
        if gdim >= 2:
            cat["SymDG"] = _symT(cell, [3, 1, 2], gdim, E.DG)
            cat["MixSymDG"] = E.VMixed([_symT(cell, [2], gdim, E.DG), E.DG(cell, 0)])
        cat["MixN1P3"] = E.VMixed([E.N1(cell, 1), E.P(cell, 3)])
        cat["MixRT1DG2DG0"] = E.VMixed([E.RT(cell, 1), E.DG(cell, 2), E.DG(cell, 0)])
        _POOLS[key] = cat
    return _POOLS[key]


def has_continuous_leaf(el):
    return any(lf[3] for lf in element_leaves(el))


# ------------------------------------------------------------------------------------ the sweep

TEMPLATES = ["comp", "comp-sq", "comp-times", "comp-dx", "grad-comp", "list", "cond", "variable", "free-index", "restricted", "fpow", "minmax-const"]


def _build_sweep():
    full = []
    for ci, (cell, gdim) in enumerate(CELLS):
        cat = pool(cell, gdim)
        mesh = E.mesh_for(cell, gdim)
        for name in sorted(cat):
            shape = tuple(ufl.FunctionSpace(mesh, cat[name]).value_shape)
            comps = list(itertools.product(*[range(n) for n in shape]))
            for kind in ("Coefficient", "Argument"):
                for comp in comps:
                    for t in TEMPLATES:
                        full.append((ci, name, kind, comp, t))
                if cat[name].vf_kind == "mixed":
                    parts = ufl.split(ufl.Coefficient(ufl.FunctionSpace(mesh, cat[name])))
                    for pi, part in enumerate(parts):
                        for sc in itertools.product(*[range(n) for n in part.ufl_shape]):
                            full.append((ci, name, kind, (pi,) + tuple(sc), "split"))
    # fixed shuffle: a time-truncated run then sees a uniform sample of cells / elements / templates
    random.Random(18).shuffle(full)
    return {"quick": [s for s in full if _in_quick(s)], "thorough": full}


def _in_quick(s):
    ci, name, kind, comp, t = s
    if CELLS[ci] == ("interval", 3):
        return False
    if name in HETERO:
        if kind == "Coefficient":
            return t not in ("minmax-const", "free-index")
        return t in ("comp", "comp-dx", "comp-times", "split", "restricted")
    if kind == "Coefficient":
        return t in ("comp", "comp-dx", "restricted")
    return t == "comp"


SWEEP = _build_sweep()
NCASES = {"quick": (len(SWEEP["quick"]) * 4) // 3 + 64, "thorough": (len(SWEEP["thorough"]) * 4) // 3 + 12000}
# A complete run on a quiet machine observes about
#   quick:    events_judged 24000, sweep_cases_judged 3850, random_cases_judged 1520, tight_events 17000,
#             hetero_component_events 11000, cfd_events_judged 6600, attach_events_judged 7000
#   thorough: events_judged 170000, sweep_cases_judged 14600, random_cases_judged 17000, tight_events 125000,
#             hetero_component_events 22500, cfd_events_judged 38000, attach_events_judged 49000
# floors are about 30-35 % of that: what a run still reaches inside its time budget on a machine with load average 40
FLOORS = {
    "quick": {"events_judged": 7000, "sweep_cases_judged": 1150, "random_cases_judged": 450, "tight_events": 5000,
              "hetero_component_events": 3300, "cfd_events_judged": 1900, "attach_events_judged": 2000, "reattach_events_judged": 500},
    "thorough": {"events_judged": 60000, "sweep_cases_judged": 5100, "random_cases_judged": 4500, "tight_events": 44000,
                 "hetero_component_events": 8000, "cfd_events_judged": 13000, "attach_events_judged": 17000, "reattach_events_judged": 4000},
}
COVER_FLOORS = {
    t: {
        "elements_judged": ["MixP2P1", "MixRTDG", "MixNest", "Sym", "MixSymP1", "RT2", "N1_1", "P3", "DG0"],
        "itypes_judged": ["cell", "exterior_facet", "interior_facet"],
        "events": ["raw", "preprocessed", "attach_estimated_degrees", "compute_form_data"],
    }
    for t in ("quick", "thorough")
}


# ------------------------------------------------------------------------------------ judging


class Skip(Exception):
    def __init__(self, why):
        self.why = why


def measure(ctx, e, probes, memo=None, side=None):
    """True degree of e or Skip(reason)."""
    stats = {}
    try:
        d, U = true_degree(e, probes, QB, stats, memo, side)
    except NotPolynomial as ex:
        raise Skip("not-polynomial:" + str(ex)[:40])
    except UnknownNode as ex:
        raise Skip("no-degree-bound-for:" + str(ex)[:30])
    except DegreeTooHigh:
        raise Skip("degree-bound-above-limit")
    except Unsupported as ex:
        raise Skip("interpreter-unsupported:" + str(ex)[:30])
    except IllConditioned as ex:
        raise Skip("not-exact:" + str(ex)[:40])
    except Ambiguous:
        raise Skip("ambiguous-unrestricted-value")
    except StructureMismatch as ex:
        raise Skip("structure:" + str(ex)[:30])
    finally:
        ctx.count("exact_evaluations", stats.get("evaluations", 0))
    ctx.count("degrees_measured")
    return d


def estimate(e):
    """('ok', degree, used_fallback) | ('refused', exception name, None)."""
    with warnings.catch_warnings(record=True) as rec:
        warnings.simplefilter("always")
        try:
            d = estimate_total_polynomial_degree(e, default_degree=1)
        except Exception as ex:
            return "refused", type(ex).__name__ + ": " + str(ex)[:50], None
    fb = any("Missing degree estimation handler" in str(w.message) for w in rec)
    return "ok", d, fb


def form_argument_of(e):
    """The form argument an Indexed / Restricted / Variable chain reads, or None."""
    o = e
    for _ in range(6):
        n = type(o).__name__
        if n in ("Coefficient", "Argument"):
            return o
        if n in ("Indexed", "PositiveRestricted", "NegativeRestricted", "Variable", "ReferenceValue"):
            o = o.ufl_operands[0]
        else:
            return None
    return None


def elemsig(f):
    """Structure of the element of form argument f: kinds of its direct sub-elements and whether somewhere the
    physical value size differs from the reference value size."""
    el = f.ufl_element()
    mesh = f.ufl_function_space().ufl_domain()
    kind = pullback_kind(el)
    subs = sorted({pullback_kind(s) for s in el.sub_elements})

    def differs(x):
        try:
            if ufl.FunctionSpace(mesh, x).value_size != x.reference_value_size:
                return True
        except Exception:
            return False
        return any(differs(s) for s in x.sub_elements)

    return kind + ("[" + ",".join(subs) + "]" if subs else "") + (":vsize!=rsize" if differs(el) else ":vsize==rsize")


def mechanism(culprit):
    """Mechanism key part: the class of the smallest under-estimated node; for a component of a form argument also the
    index pattern and the structure of its element."""
    while type(culprit).__name__ in ("PositiveRestricted", "NegativeRestricted"):
        culprit = culprit.ufl_operands[0]  # an unrestricted operand has no single value on an interior facet
    name = type(culprit).__name__
    if name == "Power":
        return "Power/" + type(culprit.ufl_operands[1]).__name__ + "-exponent"
    f = form_argument_of(culprit)
    if f is not None:
        return skeleton(culprit, 1) + "/" + elemsig(f)
    if name == "Indexed":
        return "Indexed(" + type(culprit.ufl_operands[0]).__name__ + ")"
    return name


_NO_VALUE = {"MultiIndex", "Label", "ExprList", "ExprMapping", "EQ", "NE", "LT", "GT", "LE", "GE", "AndCondition", "OrCondition", "NotCondition"}


def localise(ctx, expr, probes, limit=120):
    """Smallest sub-expression whose own estimate is already below its own true degree."""
    n = 0
    memo = {}
    for sub in subexpressions(expr):
        if type(sub).__name__ in _NO_VALUE:
            continue
        n += 1
        if n > limit:
            break
        st, d, _ = estimate(sub)
        if st != "ok" or not isinstance(d, int):
            continue
        try:
            t = measure(ctx, sub, probes, memo)
        except Skip as sk:
            if sk.why != "ambiguous-unrestricted-value":
                continue
            # an operand of a restriction on an interior facet: look at it on one side
            try:
                t = measure(ctx, sub, probes, memo, side="+")
            except Skip:
                continue
        if d < t:
            return sub, d, t
    return None, None, None


def judge_direct(ctx, event, expr, true, probes, info):
    """Judge estimate_total_polynomial_degree(expr) against the measured degree.  Returns the estimate or None."""
    st, d, fb = estimate(expr)
    if st == "refused":
        ctx.count(event + "_refused")
        ctx.covered(event + "_refused_with", d)
        return None
    if not isinstance(d, int) or isinstance(d, bool):
        ctx.count(event + "_estimate_not_an_int")
        ctx.covered("non_int_estimates", repr(d)[:40])
        return None
    if fb:
        ctx.count("estimates_through_fallback_handler")
    record(ctx, event, expr, d, true, info)
    if d < true:
        culprit, cd, ct = localise(ctx, expr, probes)
        if culprit is None:
            culprit, cd, ct = expr, d, true
            key = "C18/underestimate/unlocalised/" + type(expr).__name__
        else:
            key = "C18/underestimate/" + mechanism(culprit)
        ctx.violation(
            key,
            f"estimated degree {cd} < true degree {ct} for {safe_str(culprit, 160)} ({event} integrand: estimate {d}, true {true})",
            dict(info, event=event, integrand=safe_str(expr, 900), estimate=d, true_degree=true, culprit=safe_str(culprit, 400),
                 culprit_estimate=cd, culprit_true_degree=ct, world=probes[0].describe()),
        )
    return d


EVENT_SHORT = {"raw": "raw", "preprocessed": "preprocessed", "attach_estimated_degrees": "attach", "compute_form_data": "cfd"}


def record(ctx, event, expr, d, true, info, classes=True):
    ctx.count("events_judged")
    ctx.count(EVENT_SHORT[event] + "_events_judged")
    ctx.covered("events", event)
    ctx.covered("itypes_judged", info["itype"])
    for n in info["elements"]:
        ctx.covered("elements_judged", n)
    if d >= true:
        ctx.count("events_held")
        if d == true:
            ctx.count("tight_events")
        if classes:
            for c in node_classes(expr):
                ctx.covered("node_classes_in_held_estimates", c)
    else:
        ctx.count("events_underestimated")
    if true >= 1:
        ctx.count("nontrivial_events")
        ctx.add_distinct((event, info["cell"], info["gdim"], info["itype"], tuple(info["elements"]), skeleton(expr, 2), true))
    if info.get("hetero"):
        ctx.count("hetero_component_events")
    if true > 0:
        ctx.covered("true_degrees_seen", true)


def judge_integrals(ctx, U, pieces, probes, info, opts):
    """pieces = [(subdomain id, integrand, true degree)] of one integral type.  Judges the estimate of the preprocessed
    integrands, attach_estimated_degrees and (unless opts is None) compute_form_data."""
    form = None
    for sid, integrand, true in pieces:
        piece = integrand * U.measure(sid)
        form = piece if form is None else form + piece
    # --- the preprocessed form: direct estimates of its integrands, then attach_estimated_degrees
    try:
        pf = preprocess_form(form, False)
    except Exception as ex:
        ctx.count("preprocess_refused")
        ctx.covered("preprocess_refused_with", type(ex).__name__ + ": " + str(ex)[:50])
        return
    def by_subdomain(integrals):
        """Forms keep their integrals in canonical order (and split a measure over several subdomains into one integral
        per subdomain): pair them with the pieces through the subdomain ids, which are unique per piece."""
        m = {}
        for itg in integrals:
            m.setdefault(itg.subdomain_id(), []).append(itg)
        out = []
        for sid, integrand, true in pieces:
            keys = ("everywhere",) if sid is None else (sid if isinstance(sid, tuple) else (sid,))
            got = [m.get(k, []) for k in keys]
            out.append([g[0] for g in got] if all(len(g) == 1 for g in got) else None)
        return out

    pints = by_subdomain(pf.integrals())
    direct = {}
    for k, (itgs, (sid, integrand, true)) in enumerate(zip(pints, pieces)):
        if itgs is None:
            ctx.count("preprocessed_integral_vanished")
            continue
        direct[k] = judge_direct(ctx, "preprocessed", itgs[0].integrand(), true, probes, info)
    try:
        aints = by_subdomain(attach_estimated_degrees(pf).integrals())
    except Exception as ex:
        ctx.count("attach_refused")
        ctx.covered("attach_refused_with", type(ex).__name__ + ": " + str(ex)[:50])
        aints = []
    for k, (itgs, (sid, integrand, true)) in enumerate(zip(aints, pieces)):
        if itgs is None:
            if pints[k] is not None:
                ctx.violation("C18/attach_estimated_degrees/integral-lost", f"the integral over subdomain {sid} has no counterpart after attach_estimated_degrees")
            continue
        for itg in itgs:
            d = itg.metadata().get("estimated_polynomial_degree")
            if not isinstance(d, int) or isinstance(d, bool):
                ctx.violation("C18/attach_estimated_degrees/no-integer-degree-attached", f"metadata {itg.metadata()!r}")
                continue
            record(ctx, "attach_estimated_degrees", itg.integrand(), d, true, info)
            if d < true and (direct.get(k) is None or direct[k] >= true):
                ctx.violation(
                    "C18/attach_estimated_degrees/below-true-degree-although-direct-estimate-is-not",
                    f"attached degree {d} < true degree {true}; estimate_total_polynomial_degree of the same integrand gives {direct.get(k)}",
                    dict(info, integrand=safe_str(itg.integrand(), 900), attached=d, true_degree=true, world=probes[0].describe()),
                )
            elif d < true:
                ctx.count("attach_underestimates_with_the_direct_estimate")
    # --- history: integrals that were processed before (they carry the degree attached for an EARLIER, lower-degree
    # integrand in their metadata) are given the present integrand (Integral.reconstruct) and processed again
    if info.get("reattach", True) and len(pieces) and hash(repr(info)) % 3 == 0:
        from ufl.constantvalue import IntValue
        from ufl.form import Form as _Form

        for k, (itgs, (sid, integrand, true)) in enumerate(zip(pints, pieces)):
            if itgs is None or len(itgs) != 1:
                continue
            p0 = itgs[0]
            try:
                earlier = attach_estimated_degrees(_Form([p0.reconstruct(integrand=IntValue(1))])).integrals()[0]
                again = attach_estimated_degrees(_Form([earlier.reconstruct(integrand=p0.integrand())])).integrals()
            except Exception as ex:
                ctx.count("reattach_refused")
                continue
            if len(again) != 1:
                continue
            d = again[0].metadata().get("estimated_polynomial_degree")
            ctx.count("reattach_events_judged")
            if isinstance(d, int) and d < true and (direct.get(k) is None or direct[k] >= true):
                ctx.violation(
                    "C18/attach_estimated_degrees/stale-degree-kept-when-an-integral-is-processed-again",
                    f"an integral that carried the degree {earlier.metadata().get('estimated_polynomial_degree')} of an earlier integrand keeps degree {d} < true degree {true} after attach_estimated_degrees",
                    dict(info, integrand=safe_str(p0.integrand(), 600), attached=d, true_degree=true),
                )
    # --- compute_form_data
    if opts is None:
        return
    try:
        fd = compute_form_data(form, do_append_everywhere_integrals=False, **opts)
    except BaseException as ex:
        if isinstance(ex, (KeyboardInterrupt, SystemExit)) or type(ex).__name__ == "CaseTimeout":
            raise
        ctx.count("compute_form_data_refused")
        ctx.covered("compute_form_data_refused_with", type(ex).__name__ + ": " + str(ex)[:50])
        return
    by_sid = {}
    for ida in fd.integral_data:
        sid = ida.subdomain_id
        for k in sid if isinstance(sid, tuple) else (sid,):
            by_sid.setdefault(k, []).extend(ida.integrals)
    for k, (sid, integrand, true) in enumerate(pieces):
        keys = ("otherwise",) if sid is None else (sid if isinstance(sid, tuple) else (sid,))
        for kk in keys:
            outs = by_sid.get(kk, [])
            if not outs:
                # an integrand that preprocessing proved to be zero may disappear
                if true >= 0:
                    ctx.count("cfd_integral_missing")
                continue
            # the quadrature must be exact for this piece: some delivered integral on this subdomain carries it; all
            # pieces of one subdomain and one metadata are summed into one integral, so every delivered degree counts
            d = max((o.metadata().get("estimated_polynomial_degree", -1) for o in outs), default=-1)
            if not isinstance(d, int):
                ctx.count("cfd_estimate_not_an_int")
                continue
            record(ctx, "compute_form_data", integrand, d, true, info, classes=False)
            if d < true:
                if direct.get(k) is None or direct[k] >= true:
                    ctx.violation(
                        "C18/compute_form_data/delivered-degree-below-true-degree-although-direct-estimate-is-not",
                        f"delivered estimated_polynomial_degree {d} < true degree {true}; direct estimate of the preprocessed integrand {direct.get(k)}",
                        dict(info, options={a: b for a, b in opts.items()}, integrand=safe_str(integrand, 900), delivered=d, true_degree=true,
                             world=probes[0].describe()),
                    )
                else:
                    ctx.count("cfd_underestimates_with_the_direct_estimate")


def random_options(rng):
    o = {}
    if rng.random() < 0.4:
        o["do_apply_integral_scaling"] = True
    if rng.random() < 0.3:
        o["do_apply_function_pullbacks"] = True
    if rng.random() < 0.25:
        o["do_apply_geometry_lowering"] = True
    return o


# ------------------------------------------------------------------------------------ universes


class PolyGen(Gen):
    """The shared generator in its polynomial profile; divisors are positive *constants* so that quotients stay polynomials."""

    def positive(self, depth, rmode, dd):
        c = self.U.const((), self.rng.randrange(2))
        return 3 + c * c


def universe(rng, cell, gdim, itype, names):
    U = Universe(rng, cell, gdim, itype, False, only=[])
    cat = pool(cell, gdim)
    U.cat = {k: cat[k] for k in names}
    U.spaces = {k: ufl.FunctionSpace(U.mesh, e) for k, e in U.cat.items()}
    return U


def probes_for(rng, cell, gdim, itype, n=2):
    return [Probe(rng, cell, gdim, itype) for _ in range(n)]


# ------------------------------------------------------------------------------------ sweep cases


def sweep_expression(rng, U, f, comp, tname, itype):
    """Integrand for one sweep entry; None when the template does not apply."""
    gd = U.gdim
    g = U.coef("P2", 0)
    x = U.x
    c0, c1 = U.const((), 0), U.const((), 1)
    interior = itype == "interior_facet"
    side = rng.choice("+-")
    other = "-" if side == "+" else "+"

    def R(e, s=None):
        return e(s or side) if interior else e

    if tname == "split":
        parts = ufl.split(f)
        part = parts[comp[0]]
        e = part[comp[1:]] if comp[1:] else part
        return R(e) * R(g) if rng.random() < 0.5 else R(e)
    fc = f[comp] if comp else f
    if tname == "comp":
        return R(fc)
    if tname == "comp-sq":
        return R(fc) ** 2 + R(x)[0]
    if tname == "comp-times":
        return R(fc) * R(g) + R(g)
    if tname == "comp-dx":
        return R(fc.dx(rng.randrange(gd))) * R(g)
    if tname == "grad-comp":
        return R(ufl.grad(f))[comp + (rng.randrange(gd),)] * R(fc)
    if tname == "list":
        v = ufl.as_vector([R(fc), R(g)])
        return ufl.dot(v, ufl.as_vector([R(g), R(fc)])) + v[0]
    if tname == "cond":
        cond = rng.choice([ufl.lt, ufl.gt, ufl.le, ufl.ge])(c0, c1)
        a, b = R(fc), R(g) * R(x)[gd - 1]
        return ufl.conditional(cond, a, b) if rng.random() < 0.5 else ufl.conditional(cond, b, a)
    if tname == "variable":
        v = ufl.variable(R(fc))
        if rng.random() < 0.5:
            return v * v + v
        return ufl.diff(v**3 + v * R(g), v)
    if tname == "free-index":
        if not comp:
            return None
        i = U.idx[0]
        if len(comp) == 1:
            return R(f)[i] * R(f)[i] + R(fc)
        return R(f)[comp[0], i] * R(f)[comp[0], i] + R(fc)
    if tname == "restricted":
        if not interior:
            return None
        r = rng.random()
        if r < 0.4:
            return (f(side)[comp] if comp else f(side)) * R(g, other)
        if r < 0.7:
            return fc(side) * fc(other)
        return (fc * g)(side) + fc(other)
    if tname == "fpow":
        return R(fc) ** 3.0 if rng.random() < 0.5 else R(fc) ** 2.0 * R(g)
    if tname == "minmax-const":
        m = ufl.max_value(c0, c1) if rng.random() < 0.5 else ufl.min_value(c0, c1)
        return m * R(fc) * R(fc)
    raise ValueError(tname)


def owning_leaf_degrees(el):
    return sorted({lf[2] for lf in element_leaves(el)})


def sweep_case(ctx, i, rng):
    ci, name, kind, comp, tname = SWEEP[ctx.tier][i]
    cell, gdim = CELLS[ci]
    tdim = E.TD[cell]
    el = pool(cell, gdim)[name]
    # integral type
    itype = "cell"
    if tname == "restricted" or (i % 7 == 3):
        if tdim >= 2 and gdim == tdim and not has_continuous_leaf(el):
            itype = "interior_facet"
    if itype == "cell" and tdim >= 2 and i % 5 == 1:
        itype = "exterior_facet"
    if tname == "restricted" and itype != "interior_facet":
        ctx.count("sweep_template_not_applicable")
        return
    aux = "DG2" if itype == "interior_facet" else "P2"
    U = universe(rng, cell, gdim, itype, sorted({name, aux}))
    if aux != "P2":
        U.spaces["P2"] = U.spaces[aux]  # the auxiliary degree-2 field
    f = U.coef(name, 0) if kind == "Coefficient" else U.arg(name, 0)
    try:
        e = sweep_expression(rng, U, f, comp, tname, itype)
    except Exception as ex:
        ctx.count("sweep_build_refused")
        ctx.covered("sweep_build_refused_with", tname + ": " + type(ex).__name__)
        return
    if e is None:
        ctx.count("sweep_template_not_applicable")
        return
    probes = probes_for(rng, cell, gdim, itype)
    try:
        true = measure(ctx, e, probes)
    except Skip as s:
        ctx.count("skipped")
        ctx.covered("skipped_because", s.why)
        return
    hetero = len(owning_leaf_degrees(el)) > 1
    info = {"cell": cell, "gdim": gdim, "itype": itype, "elements": [name], "kind": kind, "component": list(comp), "template": tname,
            "hetero": hetero}
    ctx.count("sweep_cases_judged")
    ctx.covered("templates_judged", tname)
    judge_direct(ctx, "raw", e, true, probes, info)
    # compute_form_data checks arities: only integrands that are linear in the argument go there
    opts = random_options(rng) if kind == "Coefficient" or tname in ("comp", "comp-dx") else None
    judge_integrals(ctx, U, [(None if rng.random() < 0.6 else rng.choice([1, 2]), e, true)], probes, info, opts)
    if i % 997 == 5:
        ctx.sample({"sweep": [cell, gdim, name, kind, list(comp), tname, itype], "integrand": safe_str(e, 200), "true_degree": true})


# ------------------------------------------------------------------------------------ random cases


def random_case(ctx, i, rng):
    cell, gdim = rng.choice(CELLS + [("triangle", 2), ("tetrahedron", 3), ("triangle", 2)])
    tdim = E.TD[cell]
    cat = pool(cell, gdim)
    r = rng.random()
    itype = "cell"
    if tdim >= 2 and r < 0.2:
        itype = "exterior_facet"
    elif tdim >= 2 and gdim == tdim and r < 0.35:
        itype = "interior_facet"
    names = sorted(cat)
    if itype == "interior_facet":
        names = [n for n in names if not has_continuous_leaf(cat[n])]
    het = [n for n in names if n in HETERO]
    chosen = set(rng.sample(het, min(len(het), 2)) + rng.sample(names, min(len(names), 4)))
    chosen.add("DG2" if itype == "interior_facet" else "P2")
    U = universe(rng, cell, gdim, itype, sorted(chosen))
    G = PolyGen(U, rng, poly=True, deriv=rng.choice([0, 1, 1, 2]), geom=False, compound=rng.random() < 0.8, index=rng.random() < 0.8)
    extra = [ufl.classes.CellCoordinate(U.mesh), ufl.Jacobian(U.mesh), ufl.JacobianInverse(U.mesh), ufl.JacobianDeterminant(U.mesh)]
    G.extra = extra
    G.extra_prob = 0.1
    arity = rng.choice([0, 0, 1, 2])
    nint = rng.choice([1, 1, 2, 3])
    sids = rng.sample([None, 1, 2, (3, 4)], nint)
    probes = None
    pieces = []
    elems = set()
    arg_spaces = rng.sample(sorted(chosen), 2)
    for sid in sids:
        try:
            integrand, args = G.integrand(arity, depth=rng.choice([1, 2, 2, 3]), space_names=arg_spaces)
            integrand = decorate(rng, U, G, integrand)
        except Exception as ex:
            ctx.count("build_refused")
            ctx.covered("build_refused_with", type(ex).__name__)
            continue
        if probes is None:
            probes = probes_for(rng, cell, gdim, itype)
        try:
            true = measure(ctx, integrand, probes)
        except Skip as s:
            ctx.count("skipped")
            ctx.covered("skipped_because", s.why)
            continue
        pieces.append((sid, integrand, true))
        for t in ufl.algorithms.extract_coefficients(integrand) + ufl.algorithms.extract_arguments(integrand):
            for n, s in U.spaces.items():
                if s == t.ufl_function_space():
                    elems.add(n)
    if not pieces:
        return
    info = {"cell": cell, "gdim": gdim, "itype": itype, "elements": sorted(elems), "arity": arity, "hetero": False}
    ctx.count("random_cases_judged")
    for sid, integrand, true in pieces:
        judge_direct(ctx, "raw", integrand, true, probes, info)
    judge_integrals(ctx, U, pieces, probes, info, random_options(rng))
    ctx.sample({"random": [cell, gdim, itype, sorted(elems)], "integrand": safe_str(pieces[0][1], 240), "true_degree": pieces[0][2]}, limit=3)


def shape_derivative_case(ctx, rng):
    """Shape derivatives: derivative(I*dx, x, V) keeps a CoordinateDerivative node until compute_form_data has pulled
    everything back; the degree is estimated on that node (integrand degree + direction degree), the true degree is
    measured on the delivered, fully expanded integrand."""
    cell, gdim = rng.choice([("interval", 1), ("triangle", 2), ("triangle", 2), ("tetrahedron", 3)])
    U = universe(rng, cell, gdim, "cell", ["P1", "P2"] + (["P3"] if "P3" in pool(cell, gdim) else []))
    G = PolyGen(U, rng, poly=True, deriv=rng.choice([0, 0, 1]), geom=False, compound=False, index=rng.random() < 0.5)
    try:
        integrand, _ = G.integrand(0, depth=rng.choice([1, 1, 2]), space_names=sorted(U.spaces)[:2])
        dv = rng.choice([1, 2, 3, 3, 4])
        V = ufl.Coefficient(ufl.FunctionSpace(U.mesh, E.P(cell, dv, (gdim,))))
        form = ufl.derivative(integrand * ufl.dx(domain=U.mesh), ufl.SpatialCoordinate(U.mesh), V)
        cd_node = form.integrals()[0].integrand()
    except Exception as ex:
        ctx.count("build_refused")
        ctx.covered("build_refused_with", type(ex).__name__ + ":shape-derivative")
        return
    ctx.count("shape_derivative_cases")
    try:
        fd = compute_form_data(form, do_apply_function_pullbacks=True, do_apply_geometry_lowering=True, do_apply_integral_scaling=True,
                               do_estimate_degrees=True, do_append_everywhere_integrals=False)
        outs = [itg for ida in fd.integral_data for itg in ida.integrals]
    except BaseException as ex:
        if isinstance(ex, (KeyboardInterrupt, SystemExit)) or type(ex).__name__ == "CaseTimeout":
            raise
        ctx.count("compute_form_data_refused")
        ctx.covered("compute_form_data_refused_with", type(ex).__name__ + ": " + str(ex)[:50])
        return
    if len(outs) != 1:
        ctx.count("shape_derivative_vanished" if not outs else "shape_derivative_several_integrals")
        return
    probes = probes_for(rng, cell, gdim, "cell")
    try:
        true = measure(ctx, outs[0].integrand(), probes)
    except Skip as s_:
        ctx.count("skipped")
        ctx.covered("skipped_because", "shape-derivative:" + s_.why)
        return
    d = outs[0].metadata().get("estimated_polynomial_degree", -1)
    info = {"cell": cell, "gdim": gdim, "itype": "cell", "direction_degree": dv, "hetero": False, "elements": sorted(U.spaces), "arity": 0}
    if not isinstance(d, int):
        ctx.count("cfd_estimate_not_an_int")
        return
    record(ctx, "compute_form_data", cd_node, d, true, info, classes=False)
    ctx.count("shape_derivative_judged")
    if d < true:
        st, d0, _fb = estimate(cd_node)
        ctx.violation("C18/underestimate/CoordinateDerivative/shape-derivative",
                      f"delivered estimated_polynomial_degree {d} < true degree {true} of the expanded shape derivative (direct estimate of the "
                      f"CoordinateDerivative node: {d0 if st == 'ok' else st}; direction of degree {dv})",
                      dict(info, integrand=safe_str(integrand, 500), expanded=safe_str(outs[0].integrand(), 900), delivered=d, true_degree=true,
                           world=probes[0].describe()))
    else:
        ctx.count("shape_derivative_held")


def decorate(rng, U, G, e):
    """Multiply a generated integrand by the polynomial operators the generator's polynomial profile leaves out
    (as factors, so that the integrand stays linear in its arguments)."""
    r = rng.random()
    c0, c1 = U.const((), 0), U.const((), 1)
    if r < 0.12:
        a, b = G.expr((), 1), G.expr((), 1)
        cond = rng.choice([ufl.lt, ufl.ge, ufl.ne])(c0, c1 * c1)
        if rng.random() < 0.3:
            cond = ufl.And(cond, ufl.Not(ufl.gt(c1, 2 * c0)))
        return e * ufl.conditional(cond, a, b)
    if r < 0.2 and not U.interior:
        v = ufl.variable(G.expr((), 1))
        return e * (v + v * v) if rng.random() < 0.6 else e * ufl.diff(v * v * v + c0 * v, v)
    if r < 0.25:
        return e * ufl.max_value(c0, c1)
    return e


def case(ctx, i, rng):
    # three sweep entries, then one generated case (in runs of 16 so that every worker of an 8- or 16-worker run sees
    # both kinds and a time-truncated run has seen both kinds)
    n = len(SWEEP[ctx.tier])
    q, r = divmod(i, 16)
    blk, pos = divmod(q, 4)
    k = (blk * 3 + pos) * 16 + r
    if pos < 3 and k < n:
        ctx.count("sweep_cases")
        sweep_case(ctx, k, rng)
    elif rng.random() < 0.12:
        shape_derivative_case(ctx, rng)
    else:
        ctx.count("random_cases")
        random_case(ctx, i, rng)

