"""C01 - form preprocessing preserves the meaning of every integral.

Events: compute_form_data(form, **options) for generated forms (1-4 integrals of cell / exterior facet
/ interior facet type, subdomain ids int / tuple / everywhere, metadata, mixed / Piola / symmetric
elements, affine simplex cells incl. immersed manifolds) under random combinations of all its
options (pullbacks, integral scaling, geometry lowering with preserved types, Jacobian cancellation,
default restrictions, restriction propagation, degree estimation, everywhere-appending, function
replacement, complex mode, component tensor removal).
The same for all forms of /repo/demo/*.py (corpus workload, `once`).
Oracle: for every (integral type, subdomain id k):
      sum of S(preprocessed integrand) over the integral_data entries whose id tuple contains k
   =  scale * sum of S(original integrand) over the original integrals that apply to k,
both evaluated in ONE world (same cell(s), point, fields); reference-frame terminals of the output
(ReferenceValue, J, K, detJ, reference normals ...) are read from that world, renumbered coefficients
are mapped back through function_replace_map; scale = 1 without integral scaling, otherwise the world's
directly computed measure ratio times the quadrature weight.  compute_form_data may raise (rejected).
"""

import ufl
from ufl.algorithms import compute_form_data

from .. import elements as E
from .. import oracle
from ..gen import Gen, Universe
from ..passcheck import count_verdicts, node_classes, safe_str, skeleton
from ..seval import CB, S, Result
from ..world import World

LEVEL = "exploration"
ENGINE = "seval"
TECHNIQUE = "differential runtime monitoring of compute_form_data: per-subdomain sums of integrand values before/after in one concrete world, option combinations sampled"
LEVEL_TEXT = (
    "The real compute_form_data is run on generated forms under random option combinations; for every integral type and "
    "subdomain id the sum of the preprocessed integrands is compared, at random points of random affine cells (cell pairs "
    "for interior facets, manifolds, both orientations), with the scaled sum of the original integrands that apply there, "
    "all evaluated by an independent interpreter in one world (50-digit confirmation).  The same oracle judges every form of the "
    "repository's demo files under the form-compiler option set and random option sets (corpus workload).  Exploration over generated cases."
)
LEVEL_NOTE = "trusted: vf/seval.py, vf/world.py (measure ratios from Cayley-Menger volumes); single mesh, affine simplex cells, degree<=3, no MeshSequence / external operators"
RULE = (
    "case i = (form recipe from the seeded generator, option combination, cell); distinct = (option combination, integral types, "
    "skeleton depth 2 of the first integrand, cell); non-trivial = compute_form_data accepted the form and every compared group has a "
    "non-zero reference value in at least one world"
)
ASSUMPTIONS = [
    "integral scaling: |cell| / |reference cell| * weight for cells, |facet| / |reference facet| * weight for facets of 2D/3D cells "
    "(interior facets from the '+' side), 1 for point-like facets of intervals (documented in apply_integral_scaling)",
    "'everywhere' integrals contribute to every numbered subdomain iff do_append_everywhere_integrals, and always to 'otherwise'",
    "in real mode the world's data are real",
]
BUDGET = {"quick": 60, "thorough": 480}
NCASES = {"quick": 1600, "thorough": 40000}
CASE_TIMEOUT = 40.0
FLOORS = {'quick': {'case_held': 200, 'groups_compared': 300, 'corpus_held': 40}, 'thorough': {'case_held': 5000, 'groups_compared': 8000, 'corpus_held': 400, 'suite:compute_form_data:held': 25}}
OPTS = ["do_apply_function_pullbacks", "do_apply_integral_scaling", "do_apply_geometry_lowering", "do_cancel_jacobian_products",
        "do_apply_default_restrictions", "do_apply_restrictions", "do_estimate_degrees", "do_append_everywhere_integrals",
        "do_replace_functions", "complex_mode", "do_remove_component_tensors"]
COVER_FLOORS = {"quick": {"options_on_held": OPTS, "itypes_held": ["cell", "exterior_facet", "interior_facet"]},
                "thorough": {"options_on_held": OPTS, "itypes_held": ["cell", "exterior_facet", "interior_facet"]}}
CELLS = [("interval", 1), ("interval", 2), ("triangle", 2), ("triangle", 2), ("triangle", 3), ("tetrahedron", 3)]


def random_options(rng):
    o = {k: rng.random() < 0.5 for k in OPTS}
    if o["do_cancel_jacobian_products"] and not (o["do_apply_function_pullbacks"] and o["do_apply_geometry_lowering"]):
        if rng.random() < 0.7:
            o["do_apply_function_pullbacks"] = o["do_apply_geometry_lowering"] = True
    if rng.random() < 0.3:
        o["do_apply_restrictions"] = True
        o["do_apply_default_restrictions"] = True
    if o["do_apply_geometry_lowering"] and rng.random() < 0.3:
        names = rng.sample(["Jacobian", "JacobianInverse", "JacobianDeterminant", "FacetJacobianDeterminant", "CellVolume", "FacetArea"], rng.choice([1, 2]))
        o["preserve_geometry_types"] = tuple(getattr(ufl.classes, n) for n in names)
    return o


def subdomain_choice(rng):
    r = rng.random()
    if r < 0.4:
        return None  # everywhere
    if r < 0.8:
        return rng.choice([1, 2, 3])
    return tuple(sorted(rng.sample([1, 2, 3, 4], 2)))


def metadata_choice(rng):
    r = rng.random()
    if r < 0.6:
        return None
    if r < 0.8:
        return {"quadrature_degree": rng.choice([1, 2, 3])}
    return {"quadrature_degree": rng.choice([2, 3]), "rule": rng.choice(["default", "vertex"])}


def applies(sid, k, append_everywhere):
    if sid == "everywhere":
        return k == "otherwise" or append_everywhere
    if isinstance(sid, tuple):
        return k in sid
    return sid == k


def expected_scale(itype, w, B):
    g = w.sides["+"].geo(B)
    t = w.tdim
    if itype == "cell":
        return g("CellVolume") / g("ReferenceCellVolume") * B.scalar(w.weight)
    if t == 1:
        return B.scalar(1)
    return g("FacetArea") / g("ReferenceFacetVolume") * B.scalar(w.weight)


def geo_factor(U, rng):
    """An argument-free scalar built from explicit Jacobians / inverses / determinants the way a user may write
    them (projectors J*K, metric J^T J, K*J, powers of detJ): food for Jacobian cancellation and geometry lowering."""
    from ufl import Identity, Jacobian, JacobianDeterminant, JacobianInverse, dot, inner, tr
    from ufl.classes import CellVolume

    g, t = U.gdim, U.tdim
    side = rng.choice("+-")

    def R(e):
        return e(side) if U.interior else e

    Jm, Km, dJ = R(Jacobian(U.mesh)), R(JacobianInverse(U.mesh)), R(JacobianDeterminant(U.mesh))
    a, b = U.const((g,), 0), U.const((g,), 1)
    i, j, k, l = U.idx[:4]  # noqa: E741
    if U.is_facet and rng.random() < 0.4:
        # facet normals written the way a user writes them: n on an exterior facet, n('+'), n('-') and both in one
        # term on an interior facet (on an immersed surface n('-') is NOT -n('+'))
        from ufl import FacetNormal

        n = FacetNormal(U.mesh)
        if not U.interior:
            return dot(n, a) + dot(n, b) ** 2
        return rng.choice([lambda: dot(n("-"), a), lambda: dot(n("+"), a) * dot(n("-"), b), lambda: dot(n("-"), a) ** 2 + dot(n("+"), b),
                           lambda: dot(n("-"), n("+")) + dot(n("-"), b)])()
    c = rng.randrange(9)
    if c == 0:
        return dot(Jm * Km * a, b)
    if c == 1:
        return tr(Km * Jm) + 2 * tr(Jm * Km)
    if c == 2:
        return Jm[i, k] * Km[k, j] * a[i] * b[j]
    if c == 3:
        return Km[k, i] * Jm[i, l] * Identity(t)[k, l]
    if c == 4:
        return dJ * dJ / abs(dJ) + 1 / dJ
    if c == 5:
        return dot(Jm.T * a, Jm.T * b)
    if c == 6:
        return (Jm * Km)[0, g - 1] + (Km * Jm)[0, t - 1] + inner(Jm * Km, Jm * Km)
    if c == 7:
        return inner(dot(Jm, dot(Km, Jm)), Jm)
    return (dJ**2) ** 0.5 / R(CellVolume(U.mesh)) + abs(dJ) ** 1.5 / dJ


def compound_factor(U, rng):
    """An argument-free scalar through the compound matrix operators on a k x k matrix of constants (k up to 4, the
    largest size the expansions know): inverse, cofactor, determinant, deviatoric part."""
    from ufl import Identity, cofac, det, dev, inner, inv, tr

    k = rng.choice([2, 3, 4, 4])
    M = U.const((k, k), 0) + 5 * Identity(k)
    N = U.const((k, k), 1)
    c = rng.randrange(6)
    if c == 0:
        return inv(M)[0, k - 1] + inv(M)[k - 1, 0] * 2
    if c == 1:
        return inner(inv(M), N)
    if c == 2:
        return cofac(M)[1, 0] if k < 4 else tr(inv(M) * N)
    if c == 3:
        return det(M) / 5**k
    if c == 4:
        return inner(dev(N), N) if k < 4 else inv(M)[1, 2] - inv(M)[2, 1]
    return tr(inv(M) * N) + inv(M + N)[0, 1]


def gen_form(rng, cell, gdim, cplx, nint, arity, itypes_all, metadata_fn=None, subdomain_fn=None, depth=(1, 2)):
    """Random form: returns (form, pieces) with pieces = [(integral type, subdomain id, integrand, metadata)]."""
    metadata_fn = metadata_fn or metadata_choice
    subdomain_fn = subdomain_fn or subdomain_choice
    pieces = []
    unis = {}
    form = None
    base = Universe(rng, cell, gdim, "cell", cplx)
    space_names = rng.sample(sorted(base.spaces), 2)
    for _ in range(nint):
        it = rng.choice(itypes_all)
        U = unis.get(it)
        if U is None:
            U = Universe(rng, cell, gdim, it, cplx)
            # all universes share mesh, spaces, coefficients and arguments
            U.mesh, U.spaces, U._coefs, U._consts, U._args, U.x = base.mesh, base.spaces, base._coefs, base._consts, base._args, base.x
            unis[it] = U
        G = Gen(U, rng, cplx=cplx, deriv=rng.choice([0, 1, 1, 2]), cond=rng.random() < 0.3 and not cplx, math=rng.random() < 0.5, geom=rng.random() < 0.5)
        if it == "interior_facet" and rng.random() < 0.4:
            G.unrestricted_prob = 0.15
        same = [p for p in pieces if p[0] == it]
        if same and rng.random() < 0.25:
            # the very same integrand again (another, possibly overlapping, subdomain): contributions must add up
            integrand = rng.choice(same)[2]
        else:
            integrand, args = G.integrand(arity, depth=rng.choice(list(depth)), space_names=space_names)
            if rng.random() < 0.25:
                integrand = integrand * (2 + geo_factor(U, rng))
            if rng.random() < 0.1:
                integrand = integrand * (2 + compound_factor(U, rng))
        sid = subdomain_fn(rng)
        md = metadata_fn(rng)
        piece = integrand * U.measure(sid, md)
        form = piece if form is None else form + piece
        pieces.append((it, "everywhere" if sid is None else sid, integrand, md))
    return form, pieces


def case(ctx, i, rng):
    cell, gdim = rng.choice(CELLS)
    opts = random_options(rng)
    cplx = opts["complex_mode"]
    nint = rng.choice([1, 1, 2, 3, 4])
    itypes_all = ["cell", "exterior_facet", "interior_facet"]
    if rng.random() < 0.12:
        # the facet measures of extruded meshes (dS_h, dS_v, ds_t, ds_b, ds_v) are interior / exterior facet integrals under
        # other names: everything that is done for dS / ds is done for them
        itypes_all = ["cell", rng.choice(["exterior_facet_top", "exterior_facet_bottom", "exterior_facet_vert"]), rng.choice(["interior_facet_horiz", "interior_facet_vert"]),
                      rng.choice(["interior_facet_horiz", "interior_facet_vert"])]
    arity = rng.choice([0, 1, 1, 2, 2])
    try:
        form, pieces = gen_form(rng, cell, gdim, cplx, nint, arity, itypes_all)
    except Exception as ex:
        ctx.count("build_rejected")
        ctx.covered("build_rejected_with", type(ex).__name__)
        return
    judge(ctx, form, pieces, opts, cell, gdim, cplx, rng)


def pieces_of(form):
    """(integral type, subdomain id, integrand, metadata) of every integral of a form that was not generated here."""
    return [(itg.integral_type(), itg.subdomain_id(), itg.integrand(), itg.metadata()) for itg in form.integrals()]


def demo_forms():
    """All forms of the repository's demo files (the corpus workload), as (file name, form name, form)."""
    import glob
    import os

    from ufl.algorithms import load_ufl_file

    from .. import REPO_DIR

    ddir = os.path.join(REPO_DIR, "demo")
    if not os.path.isdir(ddir):
        ddir = "/repo/demo"
    tdir = os.path.join(os.path.dirname(ddir), "test")  # the demos import the element helpers of test/utils.py
    if not os.path.isdir(tdir):
        tdir = "/repo/test"
    import sys

    if tdir not in sys.path:
        sys.path.append(tdir)
    out = []
    for fn in sorted(glob.glob(os.path.join(ddir, "*.py"))):
        base = os.path.basename(fn)
        if base in ("utils.py",):
            continue
        try:
            data = load_ufl_file(fn)
        except Exception as ex:
            out.append((base, "load-error: " + type(ex).__name__, None))
            continue
        names = {id(v): k for k, v in data.object_names.items()} if hasattr(data, "object_names") else {}
        for k, f in enumerate(data.forms):
            out.append((base, names.get(id(f), str(k)), f))
    return out


SIMPLEX = {"interval": 1, "triangle": 2, "tetrahedron": 3}


def once(ctx):
    """Corpus workload: every demo form of the repository under several option combinations."""
    import random

    nrep = {"quick": 3, "thorough": 24}[ctx.tier]
    forms = demo_forms()
    ctx.count("corpus_forms_seen", len(forms) if ctx.sub == 0 else 0)
    for k, (fn, name, form) in enumerate(forms):
        if k % ctx.nsub != ctx.sub:
            continue
        if form is None:
            ctx.count("corpus_load_errors")
            continue
        try:
            doms = form.ufl_domains()
            if len(doms) != 1:
                ctx.count("corpus_skipped_domains")
                continue
            cell = doms[0].ufl_cell().cellname
            gdim = doms[0].geometric_dimension
            if cell not in SIMPLEX or doms[0].ufl_coordinate_element().embedded_superdegree != 1:
                ctx.count("corpus_skipped_cell")
                continue
        except Exception:
            ctx.count("corpus_skipped_domains")
            continue
        pieces = pieces_of(form)
        for r in range(nrep):
            if ctx.time_left() < 5:
                ctx.count("corpus_not_reached_time_budget")
                return
            rng = random.Random(f"C01/corpus/{ctx.seed}/{fn}/{name}/{r}")
            opts = random_options(rng)
            if r == 0:
                # the combination a form compiler uses
                opts = {o: True for o in OPTS}
                opts["complex_mode"] = False
            ctx.case_index = None
            ctx.count("corpus_runs")
            before = ctx.counters.get("case_held", 0)
            judge(ctx, form, pieces, opts, cell, gdim, opts["complex_mode"], rng, tag="corpus:" + fn)
            if ctx.counters.get("case_held", 0) > before:
                ctx.count("corpus_held")
                ctx.covered("corpus_files_held", fn)


def judge(ctx, form, pieces, opts, cell, gdim, cplx, rng, tag=None):
    try:
        fd = compute_form_data(form, **opts)
    except (Exception, ufl.algorithms.check_arities.ArityMismatch, ufl.algorithms.comparison_checker.ComplexComparisonError) as ex:
        ctx.count("rejected")
        ctx.covered("rejected_with", type(ex).__name__ + ": " + str(ex)[:60])
        return
    ctx.count("accepted")
    append_ev = opts["do_append_everywhere_integrals"]
    # groups to compare
    groups = {}
    for ida in fd.integral_data:
        sid = ida.subdomain_id
        ks = sid if isinstance(sid, tuple) else (sid,)
        for k in ks:
            groups.setdefault((ida.integral_type, k), []).extend(itg.integrand() for itg in ida.integrals)
    # also groups that exist in the input but vanished from the output (must then be zero)
    in_keys = set()
    for it, sid, integrand, md in pieces:
        if sid == "everywhere":
            in_keys.add((it, "otherwise"))
        else:
            for k in (sid if isinstance(sid, tuple) else (sid,)):
                in_keys.add((it, k))
    replace_back = {}
    if opts["do_replace_functions"]:
        replace_back = {new: old for old, new in fd.function_replace_map.items()}
    verdict_all = []
    worst = None
    listed = set(groups)
    doms = form.ufl_domains()
    mesh = doms[0] if len(doms) == 1 else None
    for key in in_keys:
        groups.setdefault(key, [])
    for (itype, k), outs in sorted(groups.items(), key=lambda kv: repr(kv[0])):
        # a subdomain id that no output integral lists is served by the 'otherwise' integrals (compared in
        # their own group); the integrals given explicitly for it must then have vanished, i.e. be zero
        ap = append_ev if (itype, k) in listed else False
        ins = [integrand for it, sid, integrand, md in pieces if it == itype and applies(sid, k, ap)]
        worlds = []
        try:
            for _ in range(3):
                w = World(rng, cell, gdim, itype, cplx, conforming=True)
                w.alias.update(replace_back)
                w.mesh = mesh
                worlds.append(w)
        except oracle.Unsupported:
            ctx.count("world_unsupported")
            verdict_all.append("skipped")
            continue
        scaled = opts["do_apply_integral_scaling"]

        def total(exprs, w, B, side=None):
            tot = None
            flags = set()
            mx = 0.0
            for e in exprs:
                r = S(e, w, B, side=side)
                if r.rank or r.fi:
                    raise oracle.StructureMismatch("integrand is not a scalar")
                tot = r.arr if tot is None else tot + r.arr
                flags |= r.flags
                mx = max(mx, r.maxabs)
            if tot is None:
                tot = B.zeros(())
            return tot, flags, mx

        def fin(w, B):
            tot, flags, mx = total(ins, w, B)
            if scaled:
                tot = tot * expected_scale(itype, w, B)
            return Result(tot, 0, (), flags, mx)

        def fout(w, B):
            try:
                tot, flags, mx = total(outs, w, B)
            except oracle.Ambiguous:
                # an unrestricted terminal whose own value differs between the two cells.  That alone changes nothing
                # when restrictions were not propagated with checking (geometry lowering rewrites a side-independent
                # facet quantity into a combination of side-dependent ones): read every unrestricted terminal from one
                # side, once per side; only if the two readings differ is the output's meaning side-dependent
                ta, fa, ma = total(outs, w, B, side="+")
                tb, fb, mb = total(outs, w, B, side="-")
                ca, cb = complex(B.to_complex(ta)), complex(B.to_complex(tb))
                if abs(ca - cb) > 1e-9 * max(1.0, abs(ca), abs(cb)):
                    raise
                ctx.count("output_read_one_sided_both_sides_agree")
                tot, flags, mx = ta, fa | fb, max(ma, mb)
            return Result(tot, 0, (), flags, mx)

        vs = [oracle.compare_once(fin, fout, w) for w in worlds]
        count_verdicts(ctx, vs)
        kinds = [v.kind for v in vs]
        if any(kd in ("input-structure", "input-ambiguous") for kd in kinds):
            verdict_all.append("skipped")
            continue
        v = oracle.decide(vs)
        if "output-ambiguous" in kinds:
            v = "violated"
        ctx.count("groups_compared")
        verdict_all.append(v)
        if v == "violated" and worst is None:
            worst = (itype, k, next(x for x in vs if x.kind in ("disagree", "output-ambiguous")), ins, outs, worlds[0])
    if worst is not None:
        ctx.count("case_violated")
        itype, k, bad, ins, outs, w0 = worst
        culprit = minimal_options(form, opts, pieces, itype, k, cell, gdim, cplx, rng)
        ctx.violation(f"C01/{itype}/{culprit}" + ("/manifold" if gdim > E.TD[cell] else ""),
                      f"compute_form_data changed what is integrated on ({itype}, subdomain {k}): {bad.kind}, rel. err {bad.err}, {bad.why}" + (f" [{tag}]" if tag else ""),
                      {"options": {a: (b if isinstance(b, bool) else [c.__name__ for c in b]) for a, b in opts.items()},
                       "original": [safe_str(x, 500) for x in ins], "preprocessed": [safe_str(x, 700) for x in outs], "world": w0.describe()})
        return
    if verdict_all and all(v in ("held", "skipped") for v in verdict_all) and "held" in verdict_all:
        ctx.count("case_held")
        for o in OPTS:
            if opts.get(o):
                ctx.covered("options_on_held", o)
        for it, *_ in pieces:
            ctx.covered("itypes_held", it)
        ctx.add_distinct((tuple(sorted(o for o in OPTS if opts[o])), tuple(sorted({p[0] for p in pieces})), skeleton(pieces[0][2], 2), cell, gdim))
        ctx.sample({"options_on": [o for o in OPTS if opts[o]], "integrals": [[p[0], str(p[1])] for p in pieces], "cell": [cell, gdim],
                    "first_integrand": safe_str(pieces[0][2], 200)} | ({"corpus": tag} if tag else {}))
    else:
        ctx.count("case_undecided")


def minimal_options(form, opts, pieces, itype, k, cell, gdim, cplx, rng):
    """Greedy delta debugging over the option set: smallest set of switched-on options that still disagrees."""
    on = [o for o in OPTS if opts.get(o) and o != "complex_mode"]
    cur = dict(opts)

    def disagrees(o):
        try:
            fd = compute_form_data(form, **o)
        except BaseException:
            return False
        outs = []
        for ida in fd.integral_data:
            sid = ida.subdomain_id
            ks = sid if isinstance(sid, tuple) else (sid,)
            if ida.integral_type == itype and k in ks:
                outs.extend(itg.integrand() for itg in ida.integrals)
        ins = [integrand for it, sid, integrand, md in pieces if it == itype and applies(sid, k, o["do_append_everywhere_integrals"])]
        back = {new: old for old, new in fd.function_replace_map.items()} if o.get("do_replace_functions") else {}
        for _ in range(2):
            w = World(rng, cell, gdim, itype, cplx, conforming=True)
            w.alias.update(back)
            try:
                a = sum((S(e, w).arr for e in ins), 0)
                if o["do_apply_integral_scaling"]:
                    a = a * expected_scale(itype, w, CB)
                b = sum((S(e, w).arr for e in outs), 0)
            except Exception:
                return False
            if abs(a - b) > 1e-7 * max(1.0, abs(a), abs(b)):
                return True
        return False

    for o in on:
        trial = dict(cur)
        trial[o] = False
        if o == "do_apply_geometry_lowering":
            trial.pop("preserve_geometry_types", None)
        if disagrees(trial):
            cur = trial
    left = [o for o in OPTS if cur.get(o) and o != "complex_mode"]
    return "+".join(left) if left else "no-options"


# ---- additional workload (thorough tier): the repository's own test-suite with this property's passes monitored
EXTRA_JOBS = {"thorough": ["suite"]}
SUITE_TARGETS = ['compute_form_data', 'apply_integral_scaling']


def extra_suite(ctx):
    """Every call the repository's tests make to the monitored passes is judged by the same value oracle (vf/suitemon.py)."""
    from ..suite_driver import run_suite

    run_suite(ctx, SUITE_TARGETS, "C01")
