"""C28 - base-form algebra has the semantics of the linear maps it denotes.

Events: every object that the public base-form API returns for a generated composition (depth <= 4) of
Forms with 0/1/2 arguments, Cofunctions, Coefficients, Matrices on primal/dual spaces, Coarguments,
Arguments, ZeroBaseForms, the empty Form and scalar weights (0, 1, -1, numbers, complex numbers,
Constants and Constant expressions), built with +, -, unary -, scalar *, 0 + A, sum(), FormSum(),
action(), Action(), A * f, A @ f, A(f), F(f, g), adjoint(), Adjoint(), derivative() (+ expand_derivatives),
expand_derivatives() and map_integrands(identity).

Oracle: a finite-dimensional model (vf/c28_model.py).  The recipe is denoted DIRECTLY in numpy
(weighted sums of arrays, tensordot of the last slot of the left with the first slot of the right
operand, conjugate transpose, zeros, identity, exact 5-point difference quotient of the array as a
function of the coordinate vector of the differentiation variable) and compared with the array
assembled from the object UFL actually returned (after its simplifications) by a recursive
assembler over that object's structure.  In addition

  * result.arguments() must have exactly the expected free slots: their number and their function
    spaces (primal/dual) in slot order  (checked for FormSum, Action, Adjoint, ZeroBaseForm, Matrix,
    Cofunction, Coargument and derivatives of those; for a plain Form only when its array is non-zero,
    because class Form derives its arguments from its integrands and is outside the statement);
  * result.coefficients() must contain every Coefficient / Cofunction on which the expected array
    really depends (decided by re-evaluating the numpy recipe with that object's data changed) and
    nothing that is not an operand of the recipe.
"""

import numpy as np

import ufl
from ufl import Action, Adjoint, FormSum, action, adjoint, derivative
from ufl.algorithms import expand_derivatives
from ufl.algorithms.map_integrands import map_integrands
from ufl.form import Form, ZeroBaseForm

from .. import elements as E
from ..c28_model import Inconsistent, Model, Skip, okey

LEVEL = "exploration"
ENGINE = "phi"
TECHNIQUE = (
    "differential runtime monitoring of the base-form API against a finite-dimensional model: numpy denotation of the "
    "recipe vs. array assembled from the object UFL returned, plus arguments()/coefficients() against argument contraction"
)
LEVEL_TEXT = (
    "Random well-typed compositions (depth <= 4) of Forms, Cofunctions, Coefficients, Matrices, Coarguments, ZeroBaseForms, "
    "empty Forms and scalar weights are built through the public operators and functions; every returned object is assembled "
    "to an array on a small basis (form values through the independent interpreter at fixed sample points, random arrays for "
    "Matrix/Cofunction) and compared with the recipe denoted directly in numpy; arguments() and coefficients() are compared "
    "with the free slots / real dependencies of that array.  Exploration over generated cases, real and complex mode."
)
LEVEL_NOTE = (
    "trusted: vf/seval.py + vf/phi.py (form values), vf/c28_model.py (contraction conventions); bounds: <= 2 function spaces, "
    "basis size 2-3, depth <= 4, coefficient-polynomial degree <= 4 for derivatives, affine simplex cells"
)
RULE = (
    "case i = a pool of typed leaves on one mesh and up to 14 random well-typed operations applied to the pool (operands are "
    "re-used, so A + A, A - A, chains A*B*c occur); every accepted node is one checked event; distinct = (operator tree to depth "
    "3 with leaf kinds, UFL result type, real/complex); non-trivial = depth >= 1, accepted by UFL, and decided by the array comparison"
)
ASSUMPTIONS = [
    "Action(A, B) contracts the last slot of A with the first slot of B (action.py docstring/_get_action_form_arguments); a Coefficient on V "
    "is its coordinate vector, a Cofunction on V* an array over the dual basis, Matrix(R, C) an array with slots (R, C), "
    "Coargument on V* the identity with slots (V, V*), Argument on V the identity with slots (V*, V)",
    "Adjoint is the CONJUGATE transpose: compute_form_adjoint swaps the two arguments and conjugates the integrand, and the symbolic "
    "Adjoint node denotes the same operation (DESIGN.md); so adjoint(w*A) = conj(w)*adjoint(A)",
    "coordinate vectors of Coefficients are real also in complex mode (basis fields, Cofunction/Matrix arrays and weights are complex): "
    "replacing an argument by a Coefficient is then a linear contraction whether or not the argument is conjugated in the integrand, so no "
    "sesquilinearity convention for contractions is asserted",
    "derivative(X, f[, du]) appends one slot in the space of f (or contracts with the direction when du is a Coefficient) holding the partial "
    "derivatives of the array with respect to the coordinates of f; leaf Forms are polynomials of degree <= 2 in each coefficient, derivatives are "
    "only generated while the degree is <= 4, where the 5-point difference quotient with step 1 is exact",
    "coefficients(): lower bound = objects on whose data the expected array numerically depends; upper bound = operands of the recipe",
    "not judged (counted): arguments() of results built from a Form whose integrands are all Zero (0*F, empty Form: class Form has lost its "
    "arguments), results that are not base forms (adjoint(Coargument) is an Argument), objects whose arguments()/coefficients() raise "
    "(FormSum holding such an Argument), compositions UFL rejects by raising, parents of a node that already violates",
]
BUDGET = {"quick": 50, "thorough": 400}
NCASES = {"quick": 2400, "thorough": 16000}
CASE_TIMEOUT = 60.0
EVAL_COUNTER = "nodes_checked"
_Q = {"nodes_checked": 10000, "value_agree": 10000, "arguments_ok": 10000, "coefficients_ok": 11000, "dependency_probes": 4000,
      "held_Action": 2800, "held_Adjoint": 1100, "held_FormSum": 4500, "held_derivative": 1100, "held_map_integrands": 750,
      "held_depth>=3": 2200, "operand_rechecks": 2500}
FLOORS = {"quick": _Q, "thorough": {k: int(v * 5.5) for k, v in _Q.items()}}
_OPS = ["0+A", "0-A", "A+0", "A+0.0", "A+Zero", "A-0", "Action", "Adjoint", "F(f,..)", "FormSum()", "action", "add", "adjoint", "call",
        "derivative", "expand_derivatives", "map_integrands(id)", "matmul", "mul", "neg", "scale", "sub", "sum()"]
_COVER = {"operations_held": _OPS, "families_held": ["Action", "Adjoint", "FormSum", "derivative", "map_integrands"],
          "result_types": ["Action", "Adjoint", "Coargument", "Cofunction", "Form", "FormSum", "Matrix", "ZeroBaseForm"],
          "derivative_operands_held": ["FormSum wrt Coefficient,in-operand,direction,auto", "Action wrt Coefficient,in-operand,direction,auto",
                                       "Form wrt Coefficient,in-operand,direction,coefficient", "Form wrt Coefficient,not-in-operand,direction,argument",
                                       "Cofunction wrt Cofunction,in-operand,direction,auto", "Matrix wrt Coefficient,not-in-operand,direction,auto"]}
COVER_FLOORS = {"quick": _COVER, "thorough": _COVER}

CELLS = [("interval", 1), ("triangle", 2), ("triangle", 2), ("triangle", 2), ("tetrahedron", 3)]
TOL = 1e-8
GRAY = 1e-5


# ------------------------------------------------------------------------------------------- nodes


class Node:
    __slots__ = ("op", "kids", "slots", "vec", "ufl", "unexp", "fn", "syn", "deg", "conjd", "depth", "sig", "bad", "memo", "kind", "info", "lossy", "nder")

    def __init__(self, op, kids, slots, obj, fn, syn=(), deg=None, conjd=(), vec=False, kind=None, unexp=None, info=None):
        self.op = op
        self.kids = tuple(kids)
        self.slots = None if slots is None else tuple(slots)
        self.vec = vec
        self.ufl = obj
        self.unexp = unexp
        self.fn = fn
        self.syn = frozenset(syn)
        self.deg = dict(deg or {})
        self.conjd = frozenset(conjd)
        self.depth = 1 + max((k.depth for k in kids), default=-1)
        self.kind = kind or op
        self.sig = (self.kind,) if not kids else (op,) + tuple(k.sig if k.depth < 2 else (k.sig[0], "..") for k in kids)
        self.bad = any(k.bad for k in kids)
        self.memo = {}
        self.info = info
        self.nder = max((k.nder for k in kids), default=0) + (1 if op == "derivative" else 0)
        # class Form derives its arguments from its integrands: a Form whose integrands are all Zero (0*F, empty Form) has lost
        # them, and whatever is built from it reports accordingly; class Form is outside the statement
        self.lossy = any(k.lossy for k in kids) or has_degenerate_form(obj) or (unexp is not None and has_degenerate_form(unexp))

    def ev(self, ov=None):
        """Expected (array | None, magnitude) under the state overrides ov."""
        key = Model.ovkey(ov)
        r = self.memo.get(key)
        if r is None:
            r = self.memo[key] = self.fn(ov or {})
        return r


def dual(slot):
    return (slot[0], not slot[1])


def mx(a):
    return float(np.max(np.abs(a), initial=0.0))


def _merge_max(*ds):
    out = {}
    for d in ds:
        for k, v in d.items():
            out[k] = max(out.get(k, 0), v)
    return out


def _merge_sum(*ds):
    out = {}
    for d in ds:
        for k, v in d.items():
            out[k] = out.get(k, 0) + v
    return out


# ------------------------------------------------------------------------------------------- a case


class Case:
    def __init__(self, ctx, rng):
        self.ctx, self.rng = ctx, rng
        cell, gdim = rng.choice(CELLS)
        self.cplx = cplx = rng.random() < 0.4
        names = ["P1", "P2", "DG1", "P1v"] + (["RT1"] if gdim >= 2 else [])
        cat = E.catalogue(cell, gdim)
        nsp = 1 if rng.random() < 0.35 else 2
        els = [cat[rng.choice(names)] for _ in range(nsp)]
        if nsp == 2 and els[0] == els[1]:
            els[1] = cat["P2" if els[0] != cat["P2"] else "P1"]
        dims = [rng.choice([2, 2, 3]) for _ in range(nsp)]
        self.m = Model(rng, cell, gdim, cplx, els, dims)
        self.nsp = nsp
        self.pool = []
        self.coefs = {i: [] for i in range(nsp)}  # leaf nodes of Coefficients per space
        self.cofs = {i: [] for i in range(nsp)}
        self.consts = [self.m.new_constant() for _ in range(2)]
        for i in range(nsp):
            for _ in range(2):
                self.leaf_coefficient(i)
            self.leaf_cofunction(i)

    # ---------------------------------------------------------------- leaves
    def add(self, n):
        self.pool.append(n)
        return n

    def leaf_coefficient(self, i):
        f = self.m.new_coefficient(i)
        k = okey(f)
        m = self.m
        n = Node("Coefficient", (), [(i, True)], f, lambda ov, k=k: (m.value(k, ov), mx(m.value(k, ov))), syn=[k], deg={k: 1}, vec=True)
        self.coefs[i].append(n)
        return self.add(n)

    def leaf_cofunction(self, i):
        via = self.rng.random() < 0.25
        c = self.m.new_cofunction(i, via_coefficient=via)
        k = okey(c)
        m = self.m
        n = Node("Cofunction", (), [(i, False)], c, lambda ov, k=k: (m.value(k, ov), mx(m.value(k, ov))), syn=[k], deg={k: 1},
                 kind="Cofunction(via Coefficient)" if via else "Cofunction")
        self.cofs[i].append(n)
        return self.add(n)

    def leaf_matrix(self, slots):
        M = self.m.new_matrix(*slots)
        a = self.m.mats[M.count()]
        return self.add(Node("Matrix", (), slots, M, lambda ov, a=a: (a, mx(a))))

    def leaf_coargument(self, i):
        n = self.m.dims[i]
        obj = ufl.Coargument(self.m.spaces[i].dual(), 1)
        return self.add(Node("Coargument", (), [(i, False), (i, True)], obj, lambda ov, n=n: (np.eye(n, dtype=complex), 1.0)))

    def leaf_argument(self, i, number):
        n = self.m.dims[i]
        obj = ufl.Argument(self.m.spaces[i], number)
        return self.add(Node("Argument", (), [(i, True), (i, False)], obj, lambda ov, n=n: (np.eye(n, dtype=complex), 1.0), vec=True))

    def leaf_zero(self, slots):
        args = []
        for j, s in enumerate(slots):
            args.append(ufl.Argument(self.m.slot_space(s), j))  # becomes a Coargument on a dual space
        shape = tuple(self.m.dims[i] for i, _ in slots)
        return self.add(Node("ZeroBaseForm", (), slots, ZeroBaseForm(tuple(args)), lambda ov, shape=shape: (np.zeros(shape, dtype=complex), 0.0)))

    def leaf_empty(self):
        return self.add(Node("EmptyForm", (), None, Form([]), lambda ov: (None, 0.0)))

    def leaf_coefsum(self, i):
        ns = self.rng.sample(self.coefs[i], 2) if len(self.coefs[i]) >= 2 else None
        if ns is None:
            return None
        if self.rng.random() < 0.3:
            ns = ns + [self.leaf_coefficient(i)]
        obj = ns[0].ufl
        for x in ns[1:]:
            obj = obj + x.ufl

        def fn(ov, ns=ns):
            vs = [x.ev(ov) for x in ns]
            return sum(v[0] for v in vs), sum(v[1] for v in vs)

        return self.add(Node("CoefficientSum", (), [(i, True)], obj, fn, syn=set().union(*[x.syn for x in ns]), deg=_merge_max(*[x.deg for x in ns]), vec=True))

    # -- forms
    def atom(self, t, itype):
        rng, g = self.rng, self.m.gdim
        sh = t.ufl_shape
        if sh == ():
            e = t if rng.random() < 0.6 else t.dx(rng.randrange(g))
        else:
            r = rng.random()
            if r < 0.6:
                e = t[rng.randrange(sh[0])]
            elif r < 0.8:
                e = t[rng.randrange(sh[0])].dx(rng.randrange(g))
            else:
                e = ufl.div(t)
        if itype == "interior_facet":
            e = e(rng.choice("+-"))
        return e

    def coef_factor(self, itype, want=None):
        """Scalar polynomial (degree <= 2 in each coefficient) of coefficient atoms; returns (expr | None, degrees)."""
        rng = self.rng
        allc = [n for i in self.coefs for n in self.coefs[i][:3]]
        nf = rng.choice([0, 1, 1, 2, 2])
        if want is not None and nf == 0:
            nf = 1
        e, deg = None, {}
        for j in range(nf):
            n = want if (want is not None and j == 0) else rng.choice(allc)
            k = okey(n.ufl)
            if deg.get(k, 0) >= 2:
                continue
            a = self.atom(n.ufl, itype)
            if self.cplx and rng.random() < 0.25:
                a = ufl.conj(a)
            e = a if e is None else e * a
            deg[k] = deg.get(k, 0) + 1
        r = rng.random()
        if e is not None and r < 0.25:
            e = e + rng.choice(self.consts)
        elif e is not None and r < 0.35:
            e = e + 2
        elif r < 0.5:
            kk = rng.choice(self.consts)
            e = kk if e is None else kk * e
        return e, deg

    def leaf_form(self, slots, want=None):
        """Form with arguments numbered 0.. on the given primal slots."""
        rng, m = self.rng, self.m
        args = [ufl.Argument(m.spaces[i], j) for j, (i, _) in enumerate(slots)]
        nint = rng.choice([1, 1, 2, 3])
        form, deg = None, {}
        for q in range(nint):
            itype = rng.choice(["cell", "cell", "exterior_facet", "interior_facet"])
            cf, d = self.coef_factor(itype, want if q == 0 else None)
            deg = _merge_max(deg, d)
            e = cf
            for j, a in enumerate(args):
                at = self.atom(a, itype)
                if j == 0 and self.cplx and rng.random() < 0.5:
                    at = ufl.conj(at)
                e = at if e is None else e * at
            if e is None:
                e = ufl.as_ufl(rng.choice([1.0, 2.0, -0.5]))
                if itype == "interior_facet":
                    e = e * ufl.FacetArea(m.mesh) / ufl.FacetArea(m.mesh)
            meas = {"cell": ufl.dx, "exterior_facet": ufl.ds, "interior_facet": ufl.dS}[itype]
            kw = {"domain": m.mesh}
            if rng.random() < 0.3:
                kw["subdomain_id"] = rng.choice([1, 2, (1, 3)])
            piece = e * meas(**kw)
            form = piece if form is None else form + piece
        syn = set(deg)

        def fn(ov, form=form):
            a, _, mag = m.form_array(form, ov)
            return a, mag

        return self.add(Node("Form%d" % len(slots), (), slots, form, fn, syn=syn, deg=deg))

    # ---------------------------------------------------------------- operand selection
    def baseforms(self, pred=lambda n: True, maxdepth=3):
        return [n for n in self.pool if not n.vec and not n.bad and n.depth <= maxdepth and pred(n)]

    def random_slots(self, k=None, primal_only=False):
        rng = self.rng
        k = rng.choice([0, 1, 1, 2, 2]) if k is None else k
        return tuple((rng.randrange(self.nsp), False if primal_only else rng.random() < 0.3) for _ in range(k))

    def fresh(self, slots, first=None):
        """A new leaf with exactly these slots."""
        rng = self.rng
        slots = tuple(slots)
        opts = []
        if all(not d for _, d in slots) and len(slots) <= 2:
            opts += ["form", "form", "form"]
        if len(slots) == 1 and not slots[0][1]:
            opts += ["cof", "cof"]
        if len(slots) == 2:
            opts += ["mat", "mat", "mat"]
            if slots[0][0] == slots[1][0] and slots == ((slots[0][0], False), (slots[0][0], True)):
                opts += ["coarg"]
        if len(slots) >= 1:
            opts += ["zero"]
        if not opts:
            opts = ["zero"] if slots else ["form"]
        o = rng.choice(opts)
        if o == "form":
            return self.leaf_form(slots)
        if o == "cof":
            return self.leaf_cofunction(slots[0][0]) if rng.random() < 0.5 else rng.choice(self.cofs[slots[0][0]])
        if o == "mat":
            return self.leaf_matrix(slots)
        if o == "coarg":
            return self.leaf_coargument(slots[0][0])
        return self.leaf_zero(slots)

    def pick_baseform(self, maxdepth=3):
        rng = self.rng
        c = self.baseforms(maxdepth=maxdepth)
        if c and rng.random() < 0.7:
            # prefer deeper nodes so that compositions grow
            c.sort(key=lambda n: n.depth)
            return c[min(len(c) - 1, int(len(c) * (1 - rng.random() ** 2)))]
        return self.fresh(self.random_slots())

    def partner(self, a):
        """A node with the same slots as a (a itself allowed: A + A, A - A)."""
        rng = self.rng
        r = rng.random()
        if a.slots is None:
            return self.pick_baseform()
        c = self.baseforms(lambda n: n.slots == a.slots or n.slots is None)
        if r < 0.2:
            return a
        if r < 0.3:
            return self.leaf_empty()
        if r < 0.65 and c:
            return rng.choice(c)
        return self.fresh(a.slots)

    def weight(self):
        """(weight as passed to UFL, its value)."""
        rng, m = self.rng, self.m
        r = rng.random()
        if r < 0.45:
            w = rng.choice([0, 1, -1, 2, -3, 1, -1, 0])
            return w, complex(w)
        if r < 0.55:
            w = rng.choice([0.5, -1.25, 0.0, 1.0])
            return w, complex(w)
        if r < 0.7 and self.cplx:
            w = rng.choice([1j, 1 + 2j, -0.5j])
            return w, complex(w)
        k = rng.choice(self.consts)
        v = m.consts[k]
        q = rng.random()
        if q < 0.5:
            return k, v
        if q < 0.7:
            return 2 * k, 2 * v
        if q < 0.85:
            k2 = rng.choice(self.consts)
            return k * k2, v * m.consts[k2]
        return -k, -v

    # ---------------------------------------------------------------- operations (return an unbuilt recipe)
    def op_addsub(self):
        a = self.pick_baseform()
        b = self.partner(a)
        if self.rng.random() < 0.5:
            a, b = b, a
        sub = self.rng.random() < 0.45
        slots = a.slots if a.slots is not None else b.slots

        def fn(ov):
            (x, mx_), (y, my) = a.ev(ov), b.ev(ov)
            if y is not None and sub:
                y = -y
            if x is None:
                return y, max(mx_, my)
            if y is None:
                return x, max(mx_, my)
            return x + y, max(mx_, my)

        return ("sub" if sub else "add"), (a, b), slots, (lambda: a.ufl - b.ufl) if sub else (lambda: a.ufl + b.ufl), fn, {}

    def op_neg(self):
        a = self.pick_baseform()

        def fn(ov):
            x, m_ = a.ev(ov)
            return (None if x is None else -x), m_

        return "neg", (a,), a.slots, lambda: -a.ufl, fn, {}

    def op_scale(self):
        a = self.pick_baseform()
        w, v = self.weight()

        def fn(ov):
            x, m_ = a.ev(ov)
            return (None if x is None else v * x), m_ * max(abs(v), 1.0)

        return "scale", (a,), a.slots, lambda: w * a.ufl, fn, {"info": ("weight", type(w).__name__)}

    def op_radd0(self):
        a = self.pick_baseform()
        var = self.rng.choice(["0+A", "A+0", "A+0.0", "sum", "A-0", "A+Zero", "0-A"])
        if var == "0-A":
            def fneg(ov):
                x, m_ = a.ev(ov)
                return (None if x is None else -x), m_

            return var, (a,), a.slots, lambda: 0 - a.ufl, fneg, {}
        if var == "sum":
            b = self.partner(a)
            if a.slots is None and b.slots is not None:
                a, b = b, a

            def fn(ov):
                (x, m1), (y, m2) = a.ev(ov), b.ev(ov)
                if x is None:
                    return y, max(m1, m2)
                if y is None:
                    return x, max(m1, m2)
                return x + y, max(m1, m2)

            return "sum()", (a, b), a.slots, lambda: sum([a.ufl, b.ufl]), fn, {}
        build = {"0+A": lambda: 0 + a.ufl, "A+0": lambda: a.ufl + 0, "A+0.0": lambda: a.ufl + 0.0, "A-0": lambda: a.ufl - 0,
                 "A+Zero": lambda: a.ufl + ufl.constantvalue.Zero()}[var]
        return var, (a,), a.slots, build, lambda ov: a.ev(ov), {}

    def op_formsum(self):
        a = self.pick_baseform()
        n = self.rng.choice([1, 2, 2, 3])
        comps = [a]
        ref = a
        for _ in range(n - 1):
            b = self.partner(ref)
            comps.append(b)
            if ref.slots is None and b.slots is not None:
                ref = b
        ws = [self.weight() for _ in comps]
        if n == 1 and self.rng.random() < 0.5:
            ws = [(1, 1 + 0j)]
        slots = next((c.slots for c in comps if c.slots is not None), None)

        def fn(ov):
            tot, mag = None, 0.0
            for c, (w, v) in zip(comps, ws):
                x, m_ = c.ev(ov)
                mag = max(mag, m_ * max(abs(v), 1.0))
                if x is None:
                    continue
                tot = v * x if tot is None else tot + v * x
            return tot, mag

        return "FormSum()", tuple(comps), slots, lambda: FormSum(*[(c.ufl, w) for c, (w, v) in zip(comps, ws)]), fn, {}

    def right_operand_for(self, last, number=0):
        """A node whose first slot is the dual of `last`."""
        rng = self.rng
        need = dual(last)
        c = [n for n in self.pool if n.slots and n.slots[0] == need and n.depth <= 3 and n.kind != "Argument" and not n.bad]
        r = rng.random()
        if need[1]:  # a vector of V: Coefficient, sum of Coefficients, or an operator with first slot in V*
            cv = [n for n in c if n.vec]
            if r < 0.55 and cv:
                return rng.choice(cv)
            if r < 0.65:
                s = self.leaf_coefsum(need[0])
                if s is not None:
                    return s
            if r < 0.72:
                return self.leaf_argument(need[0], number)
            if r < 0.85:
                cb = [n for n in c if not n.vec]
                if cb:
                    return rng.choice(cb)
                return self.leaf_matrix((need,) + self.random_slots(1))
            return rng.choice(self.coefs[need[0]])
        cb = [n for n in c if not n.vec]
        if r < 0.5 and cb:
            return rng.choice(cb)
        if r < 0.58:
            return self.leaf_coargument(need[0])
        k = rng.choice([1, 1, 2])
        rest = self.random_slots(k - 1, primal_only=rng.random() < 0.7)
        return self.fresh((need,) + rest)

    def op_action(self):
        rng = self.rng
        c = self.baseforms(lambda n: n.slots)
        if c and rng.random() < 0.75:
            c.sort(key=lambda n: n.depth)
            a = c[min(len(c) - 1, int(len(c) * (1 - rng.random() ** 2)))]
        else:
            a = self.fresh(self.random_slots(rng.choice([1, 2, 2])))
        if rng.random() < 0.06:
            # Coefficient on the left (documented in action.py): Action(f, c)
            i = rng.randrange(self.nsp)
            a = rng.choice(self.coefs[i])
            b = self.fresh(((i, False),) + self.random_slots(rng.choice([0, 0, 1])))
            how = "Action"
        else:
            b = self.right_operand_for(a.slots[-1], len(a.slots) - 1)
            how = rng.choice(["action", "action", "Action", "Action", "mul", "matmul", "call"] if b.vec else ["action", "Action", "Action", "call"])
            if how == "call" and type(a.ufl) is Form and not isinstance(b.ufl, ufl.core.expr.Expr):
                # Form.__call__ is not BaseForm.__call__: it REPLACES the arguments by the given expressions
                # (documented), so calling a Form with a Matrix / Cofunction / base form is not an action at all
                how = "action"
        slots = tuple(a.slots[:-1]) + tuple(b.slots[1:])

        def fn(ov):
            (x, m1), (y, m2) = a.ev(ov), b.ev(ov)
            return np.tensordot(x, y, axes=([x.ndim - 1], [0])), m1 * m2 * x.shape[-1]

        build = {
            "action": lambda: action(a.ufl, b.ufl),
            "Action": lambda: Action(a.ufl, b.ufl),
            "mul": lambda: a.ufl * b.ufl,
            "matmul": lambda: a.ufl @ b.ufl,
            "call": lambda: a.ufl(b.ufl),
        }[how]
        return how, (a, b), slots, build, fn, {"deg": _merge_sum(a.deg, b.deg)}

    def op_callall(self):
        rng = self.rng
        c = self.baseforms(lambda n: n.slots and type(n.ufl) is Form and all(not d for _, d in n.slots))
        a = rng.choice(c) if c and rng.random() < 0.7 else self.leaf_form(self.random_slots(rng.choice([1, 2]), primal_only=True))
        bs = [rng.choice(self.coefs[i]) for i, _ in a.slots]

        def fn(ov):
            x, mag = a.ev(ov)
            for b in bs:
                y, m2 = b.ev(ov)
                x = np.tensordot(y, x, axes=([0], [0]))
                mag = mag * m2 * len(y)
            return x, mag

        return "F(f,..)", (a,) + tuple(bs), (), lambda: a.ufl(*[b.ufl for b in bs]), fn, {"deg": _merge_sum(a.deg, *[b.deg for b in bs])}

    def op_adjoint(self):
        rng = self.rng
        c = self.baseforms(lambda n: n.slots is not None and len(n.slots) == 2)
        r = rng.random()
        if c and r < 0.7:
            a = rng.choice(c)
        elif r < 0.74:
            a = self.leaf_empty()
        elif r < 0.8:
            a = self.pick_baseform()  # possibly not a 2-form: UFL must reject (or the result is judged as usual when it is one)
        else:
            s = self.random_slots(2)
            if rng.random() < 0.4:
                s = (s[0], (s[0][0], s[1][1]))
            a = self.fresh(s)
        how = rng.choice(["adjoint", "Adjoint"])
        if a.slots is not None and len(a.slots) != 2:
            return how + "(not a 2-form)", (a,), "ILL", (lambda: adjoint(a.ufl)) if how == "adjoint" else (lambda: Adjoint(a.ufl)), None, {}

        def fn(ov):
            x, m_ = a.ev(ov)
            return (None if x is None else np.conj(x).T), m_

        slots = None if a.slots is None else (a.slots[1], a.slots[0])
        conjd = set(a.conjd) | {k for k in a.syn if k[0] == "Cofunction"}
        return how, (a,), slots, (lambda: adjoint(a.ufl)) if how == "adjoint" else (lambda: Adjoint(a.ufl)), fn, {"conjd": conjd}

    def op_derivative(self):
        rng, m = self.rng, self.m
        a = self.pick_baseform()
        if a.slots is None or a.nder >= 2:
            return None
        r = rng.random()
        cands_in = sorted(k for k in a.syn if a.deg.get(k, 0) <= 4 and k not in a.conjd)
        if r < 0.12:
            cands = [k for k in cands_in if k[0] == "Cofunction"] or [okey(rng.choice(self.cofs[rng.randrange(self.nsp)]).ufl)]
        elif r < 0.75 and cands_in:
            cands = [k for k in cands_in if k[0] == "Coefficient"] or cands_in
        else:
            cands = [okey(n.ufl) for i in self.coefs for n in self.coefs[i]]
        k = rng.choice(cands)
        if a.deg.get(k, 0) > 4 or k in a.conjd:
            return None
        var = m.obj[k]
        i = m.space_of[k]
        is_cof = k[0] == "Cofunction"
        newslot = (i, is_cof)
        q = rng.random()
        if q < 0.45:
            du, mode = None, "auto"
        elif q < 0.75 or is_cof:
            du, mode = ufl.Argument(m.slot_space(newslot), len(a.slots)), "argument"
        else:
            hn = rng.choice(self.coefs[i])
            du, mode = hn.ufl, "coefficient"
        n = m.dims[i]
        # exact difference quotients of a polynomial: central 2-point for degree <= 2, 4-point for degree <= 4
        stencil = ((1, 6.0), (-1, -6.0)) if a.deg.get(k, 0) <= 2 else ((1, 8.0), (-1, -8.0), (2, -1.0), (-2, 1.0))

        def fn(ov):
            base = m.value(k, ov)
            x0, mag = a.ev(ov)
            out = np.zeros(x0.shape + (n,), dtype=complex)
            for j in range(n):
                acc = 0
                for s, wt in stencil:
                    ov2 = dict(ov)
                    v = np.array(base, dtype=complex)
                    v[j] += s
                    ov2[k] = v
                    x, m2 = a.ev(ov2)
                    acc = acc + wt * x
                    mag = max(mag, m2)
                out[..., j] = acc / 12.0
            mag *= 2.0
            if mode == "coefficient":
                h, m3 = hn.ev(ov)
                return np.tensordot(out, h, axes=([out.ndim - 1], [0])), mag * m3 * n
            return out, mag

        deg = dict(a.deg)
        deg[k] = max(deg.get(k, 0) - 1, 0)
        syn = set(a.syn) | {k}
        slots = tuple(a.slots)
        if mode == "coefficient":
            deg = _merge_sum(deg, hn.deg)
            syn |= hn.syn
        else:
            slots = slots + (newslot,)
        kids = (a,) if mode != "coefficient" else (a, hn)
        holder = {}

        def build():
            holder["unexp"] = derivative(a.ufl, var) if du is None else derivative(a.ufl, var, du)
            return expand_derivatives(holder["unexp"])

        return "derivative", kids, slots, build, fn, {"deg": deg, "syn": syn, "holder": holder,
                                                        "info": ("wrt", k[0], "in-operand" if k in a.syn else "not-in-operand", "direction", mode)}

    def op_expand(self):
        a = self.pick_baseform()
        how = self.rng.choice(["expand_derivatives", "map_integrands(id)"])
        build = (lambda: expand_derivatives(a.ufl)) if how == "expand_derivatives" else (lambda: map_integrands(lambda e: e, a.ufl))
        return how, (a,), a.slots, build, lambda ov: a.ev(ov), {}

    OPS = [("op_addsub", 5), ("op_neg", 1), ("op_scale", 3), ("op_radd0", 1), ("op_formsum", 2), ("op_action", 7), ("op_callall", 1),
           ("op_adjoint", 4), ("op_derivative", 4), ("op_expand", 2)]

    # ---------------------------------------------------------------- one step: build + check
    def step(self):
        ctx, rng = self.ctx, self.rng
        names, wts = zip(*self.OPS)
        rec = getattr(self, rng.choices(names, wts)[0])()
        if rec is None:
            return
        op, kids, slots, build, fn, extra = rec
        if any(k.depth >= 4 for k in kids):
            return
        ctx.count("compositions_attempted")
        try:
            obj = build()
        except Exception as ex:
            ctx.count("rejected")
            ctx.covered("rejected_with", f"{op}({','.join(tname(k.ufl) for k in kids)}): {type(ex).__name__}: {str(ex)[:70]}")
            return
        if slots == "ILL":
            ctx.count("illtyped_accepted_not_judged")
            return
        ctx.count("accepted")
        syn = extra.get("syn") or set().union(*[k.syn for k in kids])
        deg = extra.get("deg") or _merge_max(*[k.deg for k in kids])
        conjd = extra.get("conjd") or set().union(*[k.conjd for k in kids])
        node = Node(op, kids, slots, obj, fn, syn=syn, deg=deg, conjd=conjd, info=extra.get("info"),
                    unexp=(extra.get("holder") or {}).get("unexp"))
        if not isinstance(obj, ufl.form.BaseForm):
            # e.g. Action(Argument, Coefficient) -> Coefficient, adjoint(Coargument) -> Argument: not a base form, nothing to report
            ctx.count("result_not_a_baseform")
            ctx.covered("non_baseform_results", f"{op} -> {type(obj).__name__}")
            if isinstance(obj, ufl.Argument):
                node.vec = True
                node.kind = "Argument"
                self.add(node)
            return
        check(self, node)
        recheck_operands(self, node)
        self.add(node)
        # a corrupted / violating object taints everything that was built from it (the pool is in creation order)
        bad_ids = {id(n.ufl) for n in self.pool if n.bad and n.kids}
        if bad_ids:
            for n in self.pool:
                if not n.bad and (any(k.bad for k in n.kids) or (n.kids and id(n.ufl) in bad_ids)):
                    n.bad = True
                    bad_ids.add(id(n.ufl))


# ------------------------------------------------------------------------------------------- the oracle

FAMILY = {
    "add": "FormSum", "sub": "FormSum", "neg": "FormSum", "scale": "FormSum", "0+A": "FormSum", "A+0": "FormSum", "A+0.0": "FormSum", "A-0": "FormSum",
    "A+Zero": "FormSum", "0-A": "FormSum", "sum()": "FormSum", "FormSum()": "FormSum", "action": "Action", "Action": "Action", "mul": "Action", "matmul": "Action",
    "call": "Action", "F(f,..)": "Action", "adjoint": "Adjoint", "Adjoint": "Adjoint", "derivative": "derivative",
    "expand_derivatives": "map_integrands", "map_integrands(id)": "map_integrands",
}


def tname(o):
    return type(o).__name__


def describe(node, depth=0):
    if not node.kids:
        return node.kind
    if depth >= 4:
        return node.op + "(..)"
    return node.op + "(" + ", ".join(describe(k, depth + 1) for k in node.kids) + ")"


def detail(case, node, extra=None):
    d = {"recipe": describe(node), "signature": sig_ops(node), "complex": case.cplx, "operand_types": [tname(k.ufl) for k in node.kids], "result_type": tname(node.ufl),
         "result": safe(node.ufl), "info": node.info}
    if extra:
        d.update(extra)
    return d


def sig_ops(node):
    return f"{node.op}({','.join(tname(k.ufl) for k in node.kids)})->{tname(node.ufl)}"


def _numbers_clash(obj):
    comps = list(obj.components()) if type(obj) is FormSum else [obj]
    for c in comps:
        try:
            nums = [a.number() for a in c.arguments()]
        except Exception:
            continue
        if len(nums) != len(set(nums)):
            return True
    return False


def mechanism(case, node, what, obj, args=None, missing=None, extra=None):
    """Short stable name of the cause where the monitor can tell; otherwise the operator/operand-type signature."""
    from ufl.argument import BaseArgument

    fam = FAMILY.get(node.op, node.op)
    if what.startswith("arguments") and args is not None:
        if any(not isinstance(a, BaseArgument) for a in args):
            return "non-argument-listed-as-argument:" + "+".join(sorted({tname(a) for a in args if not isinstance(a, BaseArgument)}))
        if fam == "derivative" and node.info and node.info[1] == "Cofunction" and node.slots and len(args) == len(node.slots):
            got_last = args[-1].ufl_function_space()
            if got_last == case.m.slot_space(dual(node.slots[-1])):
                return "Form-wrt-Cofunction"
        if type(obj) is FormSum and node.slots is not None:
            try:
                lens = {len(c.arguments()) for c in obj.components()}
            except Exception:
                lens = set()
            if lens == {len(node.slots)} and len(args) > len(node.slots):
                return "components-number-the-same-slot-differently"
        if _numbers_clash(obj):
            # the same defect seen from the other side: two different slots carry the same argument number (an Action
            # keeps the numbers of its right operand), so merging by number loses or misplaces a slot
            return "components-number-the-same-slot-differently"
    if fam == "derivative" and what == "arguments-space" and args is not None and node.slots and len(args) == len(node.slots) >= 2:
        got = [a.ufl_function_space() for a in args]
        want = [case.m.slot_space(s_) for s_ in node.slots]
        if got[0] == want[-1] and got[1:] == want[:-1]:
            return "direction-slot-first-instead-of-last"
    if fam == "derivative" and what == "value" and extra is not None:
        E_, O_ = extra
        if E_ is not None and O_ is not None and E_.ndim == O_.ndim >= 2 and np.moveaxis(O_, 0, -1).shape == E_.shape:
            if mx(np.moveaxis(O_, 0, -1) - E_) <= 1e-8 * max(1.0, mx(E_)):
                return "direction-slot-first-instead-of-last"
    if fam == "derivative" and what == "value" and case.cplx and contains_type(node.kids[0].ufl, "Action"):
        return "Action-Leibniz-in-complex-mode"
    if fam == "derivative" and what == "value" and contains_type(node.kids[0].ufl, "Action") and _has_leibniz_adjoint(obj):
        # the operand holds an Action and the result holds action(adjoint(d left), right): the Leibniz rule whose new slot comes
        # first; through a sum or a product with a 1-form the mis-placed slot is contracted, so no transposition is visible
        return "direction-slot-first-instead-of-last"
    if what == "coefficient-missing" and node.op == "Action" and node.kids and node.kids[0].kind == "Coefficient" and missing in node.kids[0].syn:
        return "left-Coefficient-operand"
    if what == "value" and fam == "Adjoint" and case.cplx:
        def nonreal(o):
            if type(o) is FormSum:
                for w in o.weights():
                    try:
                        if abs(case.m.scalar(w).imag) > 1e-12:
                            return True
                    except Skip:
                        pass
                return any(nonreal(c) for c in o.components())
            return False

        if nonreal(obj):
            return "complex-weight-not-conjugated"
    return sig_ops(node)


def _has_leibniz_adjoint(o, depth=0):
    """An Action whose left operand is an Adjoint somewhere in the base form (what the Leibniz rule for Action builds)."""
    if tname(o) == "Action" and tname(o.ufl_operands[0]) == "Adjoint":
        return True
    if depth < 12 and isinstance(o, ufl.form.BaseForm) and tname(o) in ("FormSum", "Action", "Adjoint"):
        return any(_has_leibniz_adjoint(x, depth + 1) for x in o.ufl_operands if isinstance(x, ufl.form.BaseForm))
    return False


def contains_type(o, name, depth=0):
    if tname(o) == name:
        return True
    if depth < 12 and isinstance(o, ufl.form.BaseForm) and tname(o) in ("FormSum", "Action", "Adjoint"):
        return any(contains_type(x, name, depth + 1) for x in o.ufl_operands)
    return False


def check(case, node):
    ctx, m = case.ctx, case.m
    fam = FAMILY.get(node.op, node.op)
    ctx.covered("operations", node.op)
    ctx.covered("result_types", tname(node.ufl))
    if node.bad:
        ctx.count("nodes_skipped_operand_already_violating")
        return
    ctx.count("nodes_checked")
    try:
        E_, Emag = node.ev(None)
    except Skip as ex:
        ctx.count("expected_undecidable")
        ctx.covered("skipped_because", str(ex)[:60])
        return
    if E_ is not None and not np.all(np.isfinite(E_)):
        ctx.count("expected_undecidable")
        return
    objs = [("", node.ufl)]
    if node.unexp is not None:
        objs.append(("unexpanded-", node.unexp))
    value_done = False
    for tag, obj in objs:
        # ---- value
        try:
            O_, Oslots, Omag = m.assemble(obj)
            status = "ok"
        except Skip as ex:
            status = "skip"
            ctx.count("observed_undecidable" if not tag else "unexpanded_not_assemblable")
            ctx.covered("skipped_because", str(ex)[:60])
        except Inconsistent as ex:
            status = "bad"
            node.bad = True
            mech = "contains-itself-after-identity-shortcut" if "cyclic" in str(ex) else sig_ops(node)
            ctx.violation(f"C28/{fam}/{tag}structure/{mech}", f"the object returned for {describe(node)} cannot be assembled consistently: {ex}", detail(case, node))
        if status == "ok":
            v = compare(E_, Emag, O_, Omag)
            ctx.count("value_" + v[0] if not tag else "unexpanded_value_" + v[0])
            if v[0] == "disagree":
                node.bad = True
                ctx.violation(f"C28/{fam}/{tag}value/{mechanism(case, node, 'value', obj, extra=(E_, O_))}", f"array assembled from the result of {describe(node)} differs from the numpy denotation: {v[1]}",
                              detail(case, node, {"expected": arr_str(E_), "observed": arr_str(O_)}))
            elif v[0] == "agree" and not tag:
                value_done = True
            if v[0] == "disagree":
                continue
        if status == "bad":
            continue
        # ---- arguments
        check_arguments(case, node, obj, fam, tag, E_)
        # ---- coefficients
        check_coefficients(case, node, obj, fam, tag, E_, Emag)
    if value_done and not node.bad:
        ctx.covered("operations_held", node.op)
        ctx.covered("families_held", fam)
        ctx.count("held_" + fam)
        if fam == "derivative":
            ctx.covered("derivative_operands_held", tname(node.kids[0].ufl) + " wrt " + ",".join(map(str, node.info[1:])))
        simplified = tname(node.ufl) not in ("FormSum", "Action", "Adjoint")
        ctx.count("held_result_simplified" if simplified else "held_result_symbolic")
        if E_ is not None and np.any(E_):
            ctx.count("held_nonzero")
        ctx.add_distinct((node.sig, tname(node.ufl), case.cplx))
        if node.depth >= 2:
            ctx.count("held_depth>=2")
        if node.depth >= 3:
            ctx.count("held_depth>=3")
        ctx.sample({"recipe": describe(node), "complex": case.cplx, "result_type": tname(node.ufl), "result": safe(node.ufl),
                    "array": arr_str(E_)}, limit=3)


def recheck_operands(case, node):
    """The operation must not have changed what its (symbolic) operands denote."""
    ctx, m = case.ctx, case.m
    fam = FAMILY.get(node.op, node.op)
    for j, k in enumerate(node.kids):
        if k.bad or not k.kids or tname(k.ufl) not in ("Action", "FormSum", "Adjoint"):
            continue
        try:
            E_, Emag = k.ev(None)
            O_, _, Omag = m.assemble(k.ufl)
            v = compare(E_, Emag, O_, Omag)
        except Skip:
            continue
        except Inconsistent as ex:
            v = ("disagree", str(ex))
        ctx.count("operand_rechecks")
        if v[0] == "disagree" and node.bad and node.ufl is k.ufl:
            k.bad = True  # already reported for the result, which is this very object
            continue
        if v[0] == "disagree":
            k.bad = True
            node.bad = True
            same = "result-is-the-operand" if node.ufl is k.ufl else "other-object"
            ctx.violation(f"C28/{fam}/operand-corrupted/{tname(k.ufl)}-operand-{same}",
                          f"{describe(node)}: after the operation, operand {j} ({describe(k)}) no longer denotes its array: {v[1]}",
                          detail(case, node, {"operand_now": safe(k.ufl)}))


def safe(o):
    try:
        return str(o)[:400]
    except RecursionError:
        return "<str() recurses without end>"
    except Exception as ex:
        return f"<str() raises {type(ex).__name__}>"


def arr_str(a):
    if a is None:
        return "zero (any arity)"
    return np.array2string(np.asarray(a), precision=6, threshold=40)[:400]


def compare(E_, Emag, O_, Omag):
    scale = max(1.0, Emag, Omag)
    if E_ is None and O_ is None:
        return ("agree", "")
    if E_ is None or O_ is None or E_.shape != O_.shape:
        # a zero of unknown / other arity is compatible with a zero array only
        a = 0.0 if E_ is None else mx(E_)
        b = 0.0 if O_ is None else mx(O_)
        if a <= TOL * scale and b <= TOL * scale:
            return ("agree", "both zero")
        if max(a, b) <= GRAY * scale:
            return ("inconclusive", "")
        return ("disagree", f"expected shape {None if E_ is None else E_.shape}, observed shape {None if O_ is None else O_.shape}, not both zero")
    err = mx(E_ - O_) / scale
    if err <= TOL:
        return ("agree", "")
    if err <= GRAY:
        return ("inconclusive", "")
    return ("disagree", f"relative difference {err:.3g}")


def has_degenerate_form(o, depth=0):
    from ufl.constantvalue import Zero

    if type(o) is Form:
        return all(isinstance(itg.integrand(), Zero) for itg in o.integrals())
    if depth < 12 and isinstance(o, ufl.form.BaseForm) and not isinstance(o, (ufl.Coargument, ufl.Cofunction, ufl.Matrix, ZeroBaseForm)):
        return any(has_degenerate_form(x, depth + 1) for x in getattr(o, "ufl_operands", ()) if isinstance(x, ufl.form.BaseForm))
    return False


def raise_mechanism(obj):
    """Why arguments() / coefficients() of a base form raise, where the monitor can tell."""
    if type(obj) is FormSum:
        odd = sorted({tname(c) for c in obj.components() if not isinstance(c, ufl.form.BaseForm)})
        if odd:
            return "FormSum-component-is-not-a-BaseForm:" + "+".join(odd)
    return tname(obj)


def check_arguments(case, node, obj, fam, tag, E_):
    ctx, m = case.ctx, case.m
    if node.slots is None:
        ctx.count("arguments_not_judged_zero_of_any_arity")
        return
    if node.lossy:
        ctx.count("arguments_not_judged_vanishing_Form_involved")
        return
    try:
        args = obj.arguments()
    except Exception as ex:
        ctx.count("arguments_raises")
        node.bad = True  # cannot be judged and is not used as an operand any more
        ctx.covered("arguments_raises", f"{sig_ops(node)}: {type(ex).__name__}: {str(ex)[:60]}")
        # the object was built by UFL itself from well-formed operands and the model knows its slots: it does not
        # "report arguments according to argument contraction", it cannot report them at all
        ctx.violation(f"C28/{fam}/{tag}arguments-raise/{type(ex).__name__}/{raise_mechanism(obj)}",
                      f"{describe(node)}: arguments() raises {type(ex).__name__}: {str(ex)[:100]}",
                      detail(case, node, {"expected_slots": [str(m.slot_space(s)) for s in node.slots]}))
        return
    ctx.count("arguments_checked")
    want = [m.slot_space(s) for s in node.slots]
    got = [a.ufl_function_space() for a in args]
    if len(got) != len(want):
        node.bad = True
        ctx.violation(f"C28/{fam}/{tag}arguments-count/{mechanism(case, node, 'arguments-count', obj, args)}",
                      f"{describe(node)}: arguments() has {len(got)} entries, argument contraction leaves {len(want)} slots",
                      detail(case, node, {"arguments": [str(a) + " on " + str(a.ufl_function_space()) for a in args], "expected_slots": [str(w) for w in want]}))
        return
    for j, (g, w) in enumerate(zip(got, want)):
        if g != w:
            node.bad = True
            ctx.violation(f"C28/{fam}/{tag}arguments-space/{mechanism(case, node, 'arguments-space', obj, args)}",
                          f"{describe(node)}: argument {j} is on {g}, argument contraction gives {w}",
                          detail(case, node, {"arguments": [str(a) + " on " + str(a.ufl_function_space()) for a in args], "expected_slots": [str(w) for w in want]}))
            return
    ctx.count("arguments_ok")


def check_coefficients(case, node, obj, fam, tag, E_, Emag):
    ctx, m = case.ctx, case.m
    try:
        coefs = obj.coefficients()
    except Exception as ex:
        ctx.count("coefficients_raises")
        already = node.bad
        node.bad = True
        ctx.covered("coefficients_raises", f"{sig_ops(node)}: {type(ex).__name__}: {str(ex)[:60]}")
        if not already:
            ctx.violation(f"C28/{fam}/{tag}coefficients-raise/{type(ex).__name__}/{raise_mechanism(obj)}",
                          f"{describe(node)}: coefficients() raises {type(ex).__name__}: {str(ex)[:100]}", detail(case, node))
        return
    ctx.count("coefficients_checked")
    got = set()
    for c in coefs:
        try:
            got.add(okey(c))
        except Exception:
            got.add(("?", repr(c)[:40]))
    phantom = sorted(k for k in got if k not in node.syn)
    if phantom:
        node.bad = True
        ctx.violation(f"C28/{fam}/{tag}coefficient-not-an-operand/{sig_ops(node)}", f"{describe(node)}: coefficients() lists {phantom}, which is not among the operands",
                      detail(case, node, {"coefficients": sorted(map(str, got)), "operands": sorted(map(str, node.syn))}))
        return
    if len(coefs) != len(got):
        ctx.count("coefficients_listed_twice")
        ctx.covered("coefficients_listed_twice", sig_ops(node))
    if E_ is None:
        return
    if node.nder >= 2:
        ctx.count("dependency_not_probed_nested_derivative")
        return
    for k in sorted(node.syn):
        if k in got:
            continue
        try:
            A_, Amag = node.ev({k: m.alt[k]})
        except Skip:
            ctx.count("dependency_undecidable")
            continue
        ctx.count("dependency_probes")
        if A_ is None or A_.shape != E_.shape:
            continue
        if mx(A_ - E_) > 1e-6 * max(1.0, Emag, Amag):
            node.bad = True
            role = "left" if (node.kids and k in node.kids[0].syn) else "right"
            ctx.violation(f"C28/{fam}/{tag}coefficient-missing/{mechanism(case, node, 'coefficient-missing', obj, missing=k)}",
                          f"{describe(node)}: the array depends on {k} (operand side: {role}) but coefficients() does not list it",
                          detail(case, node, {"coefficients": sorted(map(str, got)), "depends_on": str(k)}))
            return
    ctx.count("coefficients_ok")


def case(ctx, i, rng):
    try:
        c = Case(ctx, rng)
    except Exception as ex:
        from ..world import Unsupported

        if isinstance(ex, Unsupported):
            ctx.count("world_unsupported")
            return
        raise
    nsteps = rng.choice([8, 12, 16, 22])
    for _ in range(nsteps):
        c.step()
    ctx.count("leaves_created", sum(1 for n in c.pool if not n.kids))
    for n in c.pool:
        if not n.kids:
            ctx.covered("leaf_kinds", n.kind)
