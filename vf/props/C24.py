"""C24 - point evaluation computes the mathematical value.

Events: for generated expressions E (scalar, tensor valued, or with free indices) built through the public
API, every point evaluation the language offers:
    call      E(x, mapping, component)   (E(x, mapping) / E(x) for scalars)        - Expr.__call__ -> _eval
    evaluate  expand_derivatives(E).evaluate(x, mapping, component, index_values)   - the evaluate methods, every
              component of tensor values and every assignment of the free indices
    direct    E.evaluate(x, mapping, component, StackDict()) without the lowering passes
    whole     E(x, mapping) for a tensor valued E (no component)
with mappings that give numbers / nested tuples / lists / numpy arrays for constant terminals and callables
f(x, derivatives=()) (polynomials, sine waves) for coefficients and arguments.
Oracle: the RECIPE of E denoted independently (vf/c24_den.py) in 60-digit mpmath arithmetic on the exact data
of the mapping; derivatives by the limit definition (nested central differences at 60 digits).  A returned value
that differs is a violation keyed by the class of the smallest sub-expression whose own value is wrong; an
exception is `rejected`; ties, branch cuts, kinks below derivatives and ill-conditioning are `inconclusive`.
Three more things are never a value and are reported with their own keys: a returned object that is neither a number
nor a UFL expression (non-numeric-result), a KeyError for an Index although every free index was given a value
(index-value-lost), and E(x, mapping, c) raising where evaluate() of expand_derivatives(E) returns the right number
(call-raises-where-evaluate-returns).  Whole-value calls of tensor valued expressions are keyed apart (whole-value/...).
"""

import itertools
import re
import os
import random
import warnings

import numpy as np

import ufl
from ufl.algorithms import expand_derivatives
from ufl.core.expr import Expr
from ufl.utils.stacks import StackDict

from .. import c24_den as D
from ..c24_deps import HAVE_SCIPY
from ..c24_gen import NAMES, RG, Builder, Ill, Pool

LEVEL = "exploration"
ENGINE = "rops"
TECHNIQUE = "runtime monitoring of Expr.__call__ / evaluate on generated expressions against an independent 60-digit denotation of the generating recipe"
LEVEL_TEXT = (
    "Generated expressions over the public operators (algebra, powers, math and Bessel functions, conditionals and every "
    "condition builder, index notation with fixed / free / repeated indices, list and component tensors, slices, compound "
    "tensor algebra, derivatives of mapped callables and of compounds, restrictions, variables) are evaluated by the real "
    "Expr.__call__ and evaluate methods at dyadic points for every component and index assignment and compared with the "
    "value of the generating recipe computed in 60-digit arithmetic with derivatives from the limit definition.  Exploration."
)
LEVEL_NOTE = (
    "trusted: vf/c24_den.py (operator definitions from the UFL documentation, mpmath), the polynomial / sine callables of vf/c24_gen.py; "
    "bounds: dims<=3, rank<=3, recipe depth<=4, derivative order<=3; cell_avg/facet_avg and geometric quantities other than x have no value without a cell"
)
RULE = (
    "case i = (dimension, real/complex data, terminal fields and mapping styles, recipe from the typed generator, 2 points); distinct = (kind, "
    "dimension, real/complex, operator skeleton of the recipe to depth 3, shape); non-trivial = UFL returned a number for at least one "
    "component and the oracle value is defined and well-conditioned there"
)
ASSUMPTIONS = [
    "a terminal mapped to a non-callable value is the constant function with that value (its derivatives are 0)",
    "inner conjugates its second, outer its first argument; A**2 of a tensor is inner(A, A); principal branches; restrictions, avg of a "
    "continuous mapped function equal the function, jump is 0",
    "an exception raised by evaluation is 'rejected', never 'held' (operators without evaluate, math domain errors, unmapped terminals), "
    "except where the mathematical value is defined, every terminal is mapped to a value of its own shape and the evaluator itself indexes one of "
    "those values (or the point) with a component that does not belong to it (TypeError 'not subscriptable', IndexError) or trips over a "
    "missing name: that is keyed raises-on-defined-value",
    "results that are UFL scalar constants (IntValue/FloatValue/Zero returned by PermutationSymbol.evaluate) count as their numeric value",
    "a KeyError for an Index object while every free index of the expression has a value is not a refusal but a lost binding of the "
    "evaluator's own index stack (violation index-value-lost); a returned object that is neither a number nor a UFL expression is a violation",
]
BUDGET = {"quick": 55, "thorough": 400}
NCASES = {"quick": 16000, "thorough": 240000}
CASE_TIMEOUT = 30.0
EVAL_COUNTER = "values_agree"
FLOORS = {
    "quick": {"held": 5000, "values_agree": 52000, "held_with_derivative": 720, "held_open": 1050, "held_tensor": 1650, "held_complex": 1500},
    "thorough": {"held": 78000, "values_agree": 1100000, "held_with_derivative": 11500, "held_open": 16000, "held_tensor": 27000, "held_complex": 23000},
}
_CORE_OPS = [
    "add", "sub", "mul", "div", "pow", "neg", "abs", "getitem", "stack", "as_tensor_idx", "conditional", "cmp:lt", "cmp:gt", "cmp:le", "cmp:ge",
    "cmp:eq", "cmp:ne", "land", "lor", "lnot", "max", "min", "sign", "fn:sqrt", "fn:exp", "fn:ln", "fn:cos", "fn:sin", "fn:tan", "fn:acos", "fn:asin",
    "fn:atan", "fn:cosh", "fn:sinh", "fn:tanh", "fn:erf", "atan2", "dot", "inner", "outer", "cross", "perp", "transpose", "tr", "det", "inv", "cofac",
    "dev", "sym", "skew", "diag", "diag_vector", "elem", "variable", "restrict", "avg", "jump", "grad", "Div", "curl", "nabla_grad", "nabla_div", "dx", "dxi",
    "identity", "zero", "lit", "coef", "x", "conj", "real", "imag",
]
_BESSEL = ["bessel:J", "bessel:Y", "bessel:I", "bessel:K"] if HAVE_SCIPY else []
_CLASSES = [
    "Abs", "Acos", "AndCondition", "Argument", "Asin", "Atan", "Atan2", "Coefficient", "ComplexValue", "ComponentTensor", "Conditional", "Conj", "Constant", "Cos", "Cosh",
    "Division", "EQ", "Erf", "Exp", "FloatValue", "GE", "GT", "Grad", "Identity", "Imag", "IndexSum", "Indexed", "IntValue", "LE", "LT", "ListTensor", "Ln", "MaxValue", "MinValue",
    "MultiIndex", "NE", "NegativeRestricted", "NotCondition", "OrCondition", "PermutationSymbol", "PositiveRestricted", "Power", "Product", "Real", "Sin", "Sinh", "SpatialCoordinate",
    "Sqrt", "Sum", "Tan", "Tanh", "Variable", "Zero",
] + (["BesselI", "BesselJ", "BesselK", "BesselY"] if HAVE_SCIPY else [])
COVER_FLOORS = {
    "quick": {"ops_held": _CORE_OPS + _BESSEL + ["eps"], "evaluated_classes_held": _CLASSES, "mapping_styles_held": ["call1", "call2", "call2_list", "call2_np", "value", "value_list", "value_np"]},
    "thorough": {"ops_held": _CORE_OPS + _BESSEL + ["eps"], "evaluated_classes_held": _CLASSES, "mapping_styles_held": ["call1", "call2", "call2_list", "call2_np", "value", "value_list", "value_np"]},
}
DERIV_OPS = {"grad", "Div", "curl", "nabla_grad", "nabla_div", "dx", "dxi"}
COORDS = [k / 8 for k in range(-10, 11) if k]


DEBUG = bool(os.environ.get("C24_DEBUG"))


class Symbolic(Exception):
    pass


def as_number(v):
    """Python / numpy / UFL-constant result -> complex; raises Symbolic for anything else."""
    if isinstance(v, Expr):
        if isinstance(v, ufl.constantvalue.Zero) and v.ufl_shape == () and not v.ufl_free_indices:
            return 0j, "ufl-constant"
        if isinstance(v, ufl.constantvalue.ScalarValue):
            return complex(v._value), "ufl-constant"
        raise Symbolic(type(v).__name__)
    if isinstance(v, (bool, np.bool_)):
        raise Symbolic("bool")
    if isinstance(v, (int, float, complex, np.number)):
        return complex(v), "number"
    if isinstance(v, np.ndarray) and v.shape == ():
        return complex(v[()]), "number"
    raise Symbolic(type(v).__name__)


def as_array(v, shape):
    """Whole-value result -> complex ndarray or raises Symbolic."""
    if isinstance(v, Expr):
        c, _ = as_number(v)
        return np.asarray(c)
    try:
        a = np.asarray(v, dtype=complex)
    except Exception:
        raise Symbolic(type(v).__name__)
    return a


class Judge:
    """Three-valued comparison of one returned number with the oracle value at one point."""

    def __init__(self, pool, recipe, x, seed):
        self.pool = pool
        self.recipe = recipe
        self.x = x
        self.seed = seed
        self.den = D.Den(pool.field, x, cplx=pool.cplx)
        self.state = "ok"
        self.why = ""
        self.exp = None
        self._pert = None
        try:
            self.exp = self.den.ev(recipe)
        except D.Undefined as ex:
            self.state, self.why = "undefined", str(ex)
        except D.Reject as ex:
            self.state, self.why = "oracle-rejects", str(ex)
        except (ZeroDivisionError, OverflowError) as ex:
            self.state, self.why = "undefined", type(ex).__name__
        if self.exp is not None:
            self.arr = D.to_complex(self.exp.arr)
            self.flags = set(self.den.flags)
            self.maxabs = self.den.maxabs

    def pert(self):
        if self._pert is None:
            d2 = D.Den(self.pool.field, self.x, pert=random.Random(self.seed), cplx=self.pool.cplx)
            try:
                e2 = d2.ev(self.recipe)
                self._pert = (D.to_complex(e2.arr), set(d2.flags))
            except Exception:
                self._pert = (None, {"perturbed-evaluation-failed"})
        return self._pert

    def judge(self, got, idx):
        """idx: index into self.arr (component + free index values).  -> (verdict, err, expected)."""
        exp = self.arr[idx]
        err = abs(got - exp)
        scale = max(abs(exp), abs(got))
        # pools that hand single-precision numpy data to UFL are computed in single precision by numpy's promotion
        # rules: only gross errors are judged there
        single = "value_np32" in getattr(self.pool, "used_styles", ())
        base = (2e-5 if single else 1e-10) * scale + (1e-6 if single else 1e-12) * max(self.maxabs, 1e-300)
        if err <= base:
            return "agree", err, exp
        if got != got or abs(got) == float("inf"):
            return "inconclusive:nonfinite-result", err, exp
        if self.flags:
            return "inconclusive:" + sorted(self.flags)[0].split(":")[0], err, exp
        if self.maxabs > 1e8 * max(scale, 1e-300) or self.maxabs > 1e12:
            return "inconclusive:cancellation", err, exp
        parr, pflags = self.pert()
        if parr is None or pflags:
            return "inconclusive:conditioning", err, exp
        pd = abs(parr[idx] - exp)
        tol = base + 1e3 * pd
        if err <= tol:
            return "agree", err, exp
        if pd > 1e-9 * max(scale, 1e-300):
            return "inconclusive:ill-conditioned", err, exp
        if err > 1e3 * tol and err > (1e-2 if single else 1e-6) * scale:
            return "disagree", err, exp
        return "inconclusive:gray", err, exp


def free_assignments(fi_names, dims):
    return list(itertools.product(*[range(dims[nm]) for nm in fi_names]))


def index_values(pool, fi_names, vals):
    iv = StackDict()
    for nm, v in zip(fi_names, vals):
        iv.push(pool.idx[nm], v)
    return iv


_INDEXING = re.compile(r"not subscriptable|invalid index to scalar|too many indices|index out of range|is out of bounds")


def misindexed(ex):
    """The evaluator indexed a mapped value (or the point) with a component that does not belong to it, or ran into a missing
    name: never a refusal of the input (refusals are ValueError / ZeroDivisionError / OverflowError / unordered complex numbers)."""
    if isinstance(ex, AttributeError | UnboundLocalError | NameError):
        return True
    return isinstance(ex, TypeError | IndexError) and bool(_INDEXING.search(str(ex)))


def run_event(kind, expr, expanded, pool, xarg, mapping, comp, fi_names, vals):
    """One real UFL evaluation.  Returns the raw result or raises."""
    with warnings.catch_warnings():
        warnings.simplefilter("ignore")
        if kind == "call":
            if comp == () and not fi_names:
                if mapping:
                    return expr(xarg, mapping)
                return expr(xarg)
            return expr(xarg, mapping, comp)
        if kind == "evaluate":
            return expanded.evaluate(xarg, mapping, comp, index_values(pool, fi_names, vals))
        if kind == "direct":
            return expr.evaluate(xarg, mapping, comp, index_values(pool, fi_names, vals))
        raise ValueError(kind)


def expand(expr):
    with warnings.catch_warnings():
        warnings.simplefilter("ignore")
        return expand_derivatives(expr)


def classes_of(e):
    out = set()
    stack = [e]
    seen = set()
    while stack:
        o = stack.pop()
        if id(o) in seen:
            continue
        seen.add(id(o))
        out.add(type(o).__name__)
        stack.extend(o.ufl_operands)
    return out


def xarg_of(x, variant):
    if variant == "list":
        return list(x)
    if variant == "float" and len(x) == 1:
        return x[0]
    return tuple(x)


def skeleton(n, depth=3):
    if depth == 0 or not n.kids:
        return n.op
    return n.op + "(" + ",".join(skeleton(k, depth - 1) for k in n.kids) + ")"


def observe(ctx, recipe, expr, pool, points, mapping, rng, kinds, record=True, max_call_comps=None):
    """Run the events of one expression; returns list of (verdict, info dict)."""
    out = []
    fi_names = tuple(sorted(recipe.fi))
    comps = list(np.ndindex(*recipe.shape))
    assigns = free_assignments(fi_names, recipe.fi)
    try:
        expanded = expand(expr) if isinstance(expr, Expr) else None
    except Exception as ex:
        if record:
            ctx.count("expand_rejected")
            ctx.covered("rejected_with", f"expand_derivatives:{type(ex).__name__}")
        return out, None
    outcome = {}
    for pi, (x, variant) in enumerate(points):
        J = Judge(pool, recipe, x, ctx.seed * 1000003 + pi)
        xarg = xarg_of(x, variant)
        if J.state != "ok":
            if record:
                ctx.count("oracle_" + J.state.replace("-", "_"))
            if J.state == "oracle-rejects" and record:
                ctx.covered("oracle_rejects_but_ufl_accepts", recipe.op + ": " + J.why)
        for kind in kinds:
            if kind == "whole" or (kind == "call" and fi_names):
                continue
            cs = comps
            if kind == "call" and pi > 0 and len(cs) > 3:
                cs = rng.sample(comps, 3)
            if kind == "direct":
                if pi > 0:
                    continue
                cs = comps if len(comps) <= 3 else rng.sample(comps, 3)
            if max_call_comps and kind == "call" and len(cs) > max_call_comps:
                cs = rng.sample(cs, max_call_comps)
            for comp in cs:
                for vals in assigns:
                    if record:
                        ctx.count("events_" + kind)
                    try:
                        res = run_event(kind, expr, expanded, pool, xarg, mapping, comp, fi_names, vals)
                    except KeyError as ex:
                        if isinstance(ex.args[0] if ex.args else None, ufl.core.multiindex.Index) and J.state == "ok":
                            # not a refusal: every free index was given a value, the evaluator's own index stack lost one
                            out.append(("lostindex", {"kind": kind, "x": x, "xform": variant, "comp": comp, "index_values": dict(zip(fi_names, vals)),
                                                      "got": "KeyError(" + str(ex)[:40] + ")", "expected": None, "err": float("nan"), "point": pi}))
                        else:
                            out.append(("rejected", {"kind": kind, "exc": type(ex).__name__, "msg": str(ex)[:80]}))
                        continue
                    except Exception as ex:
                        if kind != "direct" and J.state == "ok" and misindexed(ex):
                            # every terminal is mapped to a value of its own shape and the mathematical value exists
                            out.append(("misindexed", {"kind": kind, "x": x, "xform": variant, "comp": comp, "index_values": dict(zip(fi_names, vals)),
                                                       "got": f"{type(ex).__name__}({str(ex)[:60]})", "expected": None, "err": float("nan"), "point": pi}))
                            continue
                        out.append(("rejected", {"kind": kind, "exc": type(ex).__name__, "msg": str(ex)[:80]}))
                        outcome[(kind, pi, comp, vals)] = ("rejected", f"{type(ex).__name__}: {str(ex)[:80]}", x, variant)
                        continue
                    try:
                        got, how = as_number(res)
                    except Symbolic as ex:
                        if isinstance(res, Expr):
                            out.append(("symbolic", {"kind": kind, "type": str(ex)}))
                        else:
                            # neither a number nor a UFL expression (e.g. a bound method): never a value
                            out.append(("nonnumeric", {"kind": kind, "x": x, "xform": variant, "comp": comp, "index_values": dict(zip(fi_names, vals)),
                                                       "got": repr(res)[:120], "expected": None, "err": float("nan"), "type": str(ex), "point": pi}))
                        continue
                    if J.state != "ok":
                        out.append((J.state, {"kind": kind}))
                        continue
                    if how == "ufl-constant" and record:
                        ctx.count("ufl_constant_results")
                    idx = tuple(comp) + tuple(vals)
                    v, err, exp = J.judge(got, idx)
                    outcome[(kind, pi, comp, vals)] = (v, got, x, variant)
                    out.append((v, {"kind": kind, "x": x, "xform": variant, "comp": comp, "index_values": dict(zip(fi_names, vals)), "got": got, "expected": exp, "err": err, "point": pi}))
        # Expr.__call__ is documented as "evaluate derivatives first, then evaluate recursively": where the evaluate
        # methods return the right number for the preprocessed expression, the call must not raise
        for (kind, p2, comp, vals), oc in list(outcome.items()):
            if kind == "call" and p2 == pi and oc[0] == "rejected":
                ev = outcome.get(("evaluate", pi, comp, vals))
                if ev is not None and ev[0] == "agree":
                    out.append(("callraises", {"kind": "call", "x": x, "xform": variant, "comp": comp, "index_values": {}, "got": oc[1], "expected": None,
                                               "err": float("nan"), "point": pi, "evaluate_value": ev[1]}))
        # whole-value call of a tensor valued expression (no component given)
        if "whole" in kinds and recipe.shape and not fi_names and pi == 0:
            if record:
                ctx.count("events_whole")
            try:
                with warnings.catch_warnings():
                    warnings.simplefilter("ignore")
                    res = expr(xarg, mapping)
                arr = as_array(res, recipe.shape)
            except Symbolic as ex:
                out.append(("whole-symbolic", {"type": str(ex)}))
                continue
            except Exception as ex:
                out.append(("whole-rejected", {"exc": type(ex).__name__}))
                continue
            if J.state != "ok":
                out.append(("whole-" + J.state, {}))
                continue
            if arr.shape == tuple(recipe.shape):
                vs = [J.judge(arr[c], c) for c in comps]
                bad = [(c, v) for c, v in zip(comps, vs) if v[0] == "disagree"]
                if bad:
                    c, v = bad[0]
                    out.append(("whole-disagree", {"kind": "whole", "x": x, "comp": c, "got": arr[c], "expected": v[2], "err": v[1], "returned": repr(res)[:200]}))
                elif all(v[0] == "agree" for v in vs):
                    out.append(("whole-agree", {"n": len(comps)}))
                else:
                    out.append(("whole-inconclusive", {}))
            elif arr.shape == ():
                vs = [J.judge(arr[()], c) for c in comps]
                if all(v[0] == "agree" for v in vs):
                    out.append(("whole-scalar-broadcast-agree", {}))
                elif any(v[0] == "disagree" for v in vs):
                    c, v = next((c, v) for c, v in zip(comps, vs) if v[0] == "disagree")
                    out.append(("whole-disagree", {"kind": "whole", "x": x, "comp": c, "got": arr[()], "expected": v[2], "err": v[1],
                                                   "returned": repr(res)[:200], "note": f"a scalar was returned for an expression of shape {tuple(recipe.shape)}"}))
                else:
                    out.append(("whole-inconclusive", {}))
            else:
                out.append(("whole-shape-mismatch", {"returned_shape": arr.shape}))
    return out, expanded


def localise(ctx, recipe, pool, bad, mapping, rng):
    """Smallest sub-recipe whose own value is wrong under the same kind of event at the same point."""
    B = Builder(pool)
    whole = bad["kind"] == "whole"
    point = [(bad["x"], bad.get("xform", "tuple"))]
    for sub in D.subrecipes(recipe):
        if sub.kind != "val" or sub.op in ("lit",):
            continue
        if whole and (not sub.shape or sub.fi):
            continue
        try:
            e = B.b(sub)
        except Exception:
            continue
        if not isinstance(e, Expr):
            continue
        kinds = ["whole"] if whole else ([bad["kind"]] if not sub.fi else ["evaluate"])
        res, _ = observe(ctx, sub, e, pool, point, mapping, rng, kinds, record=False)
        wrong = [r for r in res if r[0] in ("disagree", "whole-disagree", "nonnumeric", "lostindex", "misindexed")]
        if wrong:
            return sub, e, wrong[0][1]
    return None, None, None


def numpy_culprit(expr, xarg, mapping_np, mapping_py):
    """Differential localisation inside the preprocessed expression: class of the smallest closed scalar sub-expression
    whose value changes when the numpy scalars / arrays of the mapping are replaced by equal Python numbers."""
    try:
        f = expand(expr)
    except Exception:
        return None
    nodes = []
    seen = set()

    def walk(o):
        if id(o) in seen:
            return 0
        seen.add(id(o))
        n = 1 + sum(walk(c) for c in o.ufl_operands)
        if isinstance(o, Expr) and type(o).__name__ not in ("MultiIndex", "Label") and o.ufl_shape == () and not o.ufl_free_indices and o.ufl_operands:
            nodes.append((n, o))
        return n

    walk(f)
    nodes.sort(key=lambda t: t[0])
    for _, o in nodes[:400]:
        try:
            with warnings.catch_warnings():
                warnings.simplefilter("ignore")
                a, _ = as_number(o.evaluate(xarg, mapping_np, (), StackDict()))
                c, _ = as_number(o.evaluate(xarg, mapping_py, (), StackDict()))
        except Exception:
            continue
        if abs(a - c) > 1e-9 * max(1.0, abs(a), abs(c)):
            return type(o).__name__
    return None


def index_names_inside(n):
    """All index names occurring anywhere in the recipe (free or bound)."""
    s = set(n.fi)
    if n.op in ("getitem",):
        s |= {c[1] for c in n.a if c[0] == "idx"}
    if n.op == "dxi":
        s |= set(n.a)
    if n.op == "as_tensor_idx":
        s |= set(n.a[0])
    for k in n.kids:
        s |= index_names_inside(k)
    return s


def reuses_bound_index(sub):
    """Does this node attach an index that is already bound (summed / component-tensor) inside its operand?"""
    if sub.op == "getitem":
        mine = {c[1] for c in sub.a if c[0] == "idx"}
    elif sub.op == "dxi":
        mine = set(sub.a)
    else:
        return False
    a = sub.kids[0]
    return bool(mine & (index_names_inside(a) - set(a.fi)))


def guard_check(ctx, recipe, pool, points, mapping):
    """Guarded conditionals (the branch that is not taken has no value, by construction): where the taken branch alone
    evaluates, the conditional must evaluate too - whatever is raised then comes from evaluating the other branch."""
    for g in D.subrecipes(recipe):
        if g.op != "conditional" or not isinstance(g.a, str) or not g.a.startswith("guard") or g.fi or g.shape:
            continue
        taken = g.kids[1] if g.a.endswith("true") else g.kids[2]
        try:
            with warnings.catch_warnings():
                warnings.simplefilter("ignore")
                B_ = Builder(pool)
                e_g, e_t = B_.b(g), B_.b(taken)
                # what Expr.__call__ does before it evaluates; a raise here (a constant folded while the expression is
                # rebuilt) is a refusal to build, not an evaluation of the branch
                expand(e_g)
        except Exception:
            continue
        if not isinstance(e_g, Expr) or not isinstance(e_t, Expr) or D.ops_of(g) & {o for o in D.ops_of(g) if o.split(":")[0] in DERIV_OPS}:
            continue
        for x, variant in points:
            xarg = xarg_of(x, variant)
            try:
                with warnings.catch_warnings():
                    warnings.simplefilter("ignore")
                    # the condition's own operands and the taken branch must evaluate on their own
                    for side_ in e_g.ufl_operands[0].ufl_operands:
                        as_number(side_(xarg, mapping) if mapping else side_(xarg))
                    bool(expand(e_g).ufl_operands[0].evaluate(xarg, mapping, (), StackDict()))  # the comparison itself
                    vt = as_number(e_t(xarg, mapping) if mapping else e_t(xarg))[0]
            except Exception:
                continue
            ctx.count("guarded_conditionals_checked")
            try:
                with warnings.catch_warnings():
                    warnings.simplefilter("ignore")
                    vg = as_number(e_g(xarg, mapping) if mapping else e_g(xarg))[0]
            except Symbolic:
                continue
            except Exception as ex:
                ctx.violation(f"C24/conditional-evaluates-the-branch-not-taken/{type(ex).__name__}",
                              f"a guarded conditional raises {type(ex).__name__}: {str(ex)[:80]} at x={x} although the branch that is taken evaluates to {vt!r} "
                              "(the branch that is not taken has no value there)",
                              {"conditional": D.show(g, 600), "expr": str(e_g)[:600], "taken_branch": str(e_t)[:300]})
                return True
            if abs(vg - vt) > 1e-9 * max(1.0, abs(vt)):
                ctx.violation("C24/conditional-evaluates-the-branch-not-taken/value", f"a guarded conditional evaluates to {vg!r}, its taken branch to {vt!r} at x={x}",
                              {"conditional": D.show(g, 600), "expr": str(e_g)[:600]})
                return True
            ctx.count("guarded_conditionals_held")
    return False


def case(ctx, i, rng):
    d = rng.choice([1, 2, 2, 3, 3])
    cplx = rng.random() < 0.3
    pool = Pool(rng, d, cplx)
    G = RG(rng, pool, deriv=rng.random() < 0.65, geo=rng.random() < 0.06)
    mode = rng.choice(["scalar"] * 9 + ["tensor"] * 7 + ["open"] * 4)
    depth = rng.choice([1, 2, 2, 3, 3, 3, 4]) if ctx.tier == "thorough" else rng.choice([1, 2, 2, 3, 3, 4])
    try:
        if mode == "scalar":
            recipe = G.scalar(depth)
        elif mode == "tensor":
            sh = rng.choice([(n,) for n in G.dims] + [(d,), (d,), (2, 2), (3, 3), (d, d), (2, 3), (3, 2), (2, 2, 2), (2, d)])
            recipe = G.tensor(sh, depth)
        else:
            names = rng.sample(NAMES, rng.choice([1, 1, 2]))
            recipe = G.fi({nm: rng.choice(G.dims + [d]) for nm in names}, depth)
    except Ill:
        ctx.count("generator_discarded")
        return
    ops = D.ops_of(recipe)
    has_deriv = bool({o.split(":")[0] for o in ops} & DERIV_OPS)
    try:
        with warnings.catch_warnings():
            warnings.simplefilter("ignore")
            expr = Builder(pool).b(recipe)
    except Exception as ex:
        ctx.count("build_rejected")
        ctx.covered("build_rejected_with", f"{recipe.op}:{type(ex).__name__}")
        if DEBUG:
            print("BUILD-REJECTED", i, type(ex).__name__, ex, "\n   ", D.show(recipe, 500))
        return
    if not isinstance(expr, Expr):
        expr = ufl.as_ufl(expr)
    fi_names = tuple(sorted(recipe.fi))
    want_fi = tuple(sorted(pool.idx[nm].count() for nm in fi_names))
    if tuple(expr.ufl_shape) != tuple(recipe.shape) or tuple(expr.ufl_free_indices) != want_fi:
        # the declared structure is the subject of C05, not of this property
        ctx.count("declared_structure_differs")
        ctx.covered("declared_structure_differs", recipe.op)
        if DEBUG:
            print("STRUCTURE", i, expr.ufl_shape, expr.ufl_free_indices, recipe.shape, recipe.fi, want_fi, "\n   ", D.show(recipe, 500), "\n   ", str(expr)[:300])
        return
    ctx.count("built")
    points = []
    for _ in range(2 if ctx.tier == "quick" else 3):
        points.append((tuple(rng.choice(COORDS) for _ in range(d)), rng.choice(["tuple", "tuple", "list", "float"])))
    mapping = pool.mapping(no_derivatives=not has_deriv)
    used_styles = set(pool.used_styles)
    kinds = ["call", "evaluate", "direct", "whole"]
    if guard_check(ctx, recipe, pool, points, mapping):
        return
    res, expanded = observe(ctx, recipe, expr, pool, points, mapping, rng, kinds)
    tally = {}
    for v, info in res:
        key = v.split(":")[0]
        tally[key] = tally.get(key, 0) + 1
        ctx.count("values_" + v.replace(":", "_").replace("-", "_"))
        if v == "rejected":
            ctx.covered("rejected_with", f"{info['kind']}:{info['exc']}:{type(expr).__name__}")
            if info["msg"].startswith("Symbolic evaluation of"):
                ctx.covered("classes_without_evaluate", info["msg"].split()[3])
            elif info["kind"] != "direct":
                ctx.covered("raised_by_evaluate", f"{info['exc']}: {info['msg'][:60]}")
        if v == "symbolic":
            ctx.covered("symbolic_results", info["type"])
        if v.startswith("whole-"):
            ctx.covered("whole_value_outcomes", v + ":" + type(expr).__name__)
    bad = [info for v, info in res if v in ("disagree", "whole-disagree")] or [info for v, info in res if v in ("nonnumeric", "lostindex", "misindexed", "callraises")]
    if bad:
        ctx.count("violated")
        b = bad[0]
        whole = b["kind"] == "whole"
        if "evaluate_value" in b:
            # consistency of __call__ with the evaluate methods: keyed by the exception, nothing to localise
            sub, sube, winfo = recipe, expr, b
            cls = b["got"].split(":")[0]
            suffix = ""
        else:
            sub, sube, winfo = localise(ctx, recipe, pool, b, mapping, rng)
            if sub is None:
                sub, sube, winfo = recipe, expr, b
            cls = type(sube).__name__
            suffix = ""
            # does the disagreement need numpy-typed values in the mapping?
            if any("np" in st for st in pool.style.values()):
                pm = pool.mapping(no_derivatives=False, python_only=True)
                kind = b["kind"] if not whole else "whole"
                r2, _ = observe(ctx, sub, sube, pool, [(b["x"], b.get("xform", "tuple"))], pm, rng, [kind if not sub.fi else "evaluate"], record=False)
                if r2 and not any(v in ("disagree", "whole-disagree", "nonnumeric", "lostindex", "misindexed") for v, _ in r2):
                    suffix = "/numpy-typed-mapping-value"
                    finer = numpy_culprit(sube, xarg_of(b["x"], b.get("xform", "tuple")), mapping, pm)
                    if finer is not None:
                        cls = finer
        if reuses_bound_index(sub) and "evaluate_value" not in b:
            suffix += "/index-also-bound-inside-operand"
        nonnum = winfo.get("expected") is None
        lost = nonnum and str(winfo["got"]).startswith("KeyError(")
        misx = nonnum and not lost and "evaluate_value" not in winfo and re.match(r"[A-Za-z]+Error\(", str(winfo["got"])) is not None
        craise = nonnum and "evaluate_value" in winfo
        key = f"C24/{('call-raises-where-evaluate-returns' if craise else 'index-value-lost' if lost else 'raises-on-defined-value' if misx else 'non-numeric-result') if nonnum else ('whole-value' if whole else 'wrong-value')}/{cls}{suffix}"
        ctx.violation(
            key,
            (f"call event: calling a {type(expr).__name__} expression raises {winfo['got']} although evaluate() of the preprocessed expression returns the right value {winfo['evaluate_value']!r} at x={b['x']}" if craise else
             f"{b['kind']} event: evaluation of {cls} loses the value of an index it was given: {winfo['got']} at x={b['x']}" if lost else
             f"{b['kind']} event: evaluation of {cls} raises {winfo['got']} for component {winfo.get('comp')!r} at x={b['x']} although every terminal is mapped to a value of its own shape and the mathematical value is defined" if misx else
             f"{b['kind']} event: {cls} evaluates to the non-numeric object {winfo['got']} at x={b['x']}" if nonnum else
             f"{b['kind']} event: {cls} evaluates to {winfo['got']!r}, mathematical value {complex(winfo['expected'])!r} (|diff| {winfo['err']:.3g}) at x={b['x']}"),
            {"culprit_recipe": D.show(sub, 600), "culprit_expr": str(sube)[:600], "whole_recipe": D.show(recipe, 900), "expr": str(expr)[:900], "component": repr(winfo.get("comp")),
             "index_values": repr(winfo.get("index_values")), "mapping_styles": {nm: pool.style[nm] for nm in sorted(pool.style)}, "note": b.get("note", ""), "returned": b.get("returned", "")},
        )
        return
    n_agree = tally.get("agree", 0)
    if n_agree and not tally.get("inconclusive", 0):
        ctx.count("held")
        ctx.count("values_held_cases", n_agree)
        if has_deriv:
            ctx.count("held_with_derivative")
        if mode == "open":
            ctx.count("held_open")
        if mode == "tensor":
            ctx.count("held_tensor")
        if cplx:
            ctx.count("held_complex")
        for o in ops:
            ctx.covered("ops_held", o)
        for c in classes_of(expanded):
            ctx.covered("evaluated_classes_held", c)
        for st in used_styles:
            ctx.covered("mapping_styles_held", st)
        ctx.add_distinct((mode, d, cplx, skeleton(recipe, 3), tuple(recipe.shape)))
        if i % 7 == 0:
            ctx.sample({"mode": mode, "dim": d, "complex": cplx, "recipe": D.show(recipe, 300), "expr": str(expr)[:300], "point": list(points[0][0]),
                        "values_agreeing": n_agree, "mapping_styles": sorted(set(pool.style.values()))})
    elif n_agree:
        ctx.count("case_partly_inconclusive")
    elif tally.get("rejected", 0) or tally.get("symbolic", 0):
        ctx.count("case_rejected")
        for o in ops:
            if o.split(":")[0] in ("geo", "bessel"):
                ctx.covered("rejected_ops", o)
    else:
        ctx.count("case_undecided")
