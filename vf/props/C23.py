"""C23 - complex and real mode node handling is sound.

Events
  (A) complex mode:  out = do_comparison_check(expression or form)
  (B) real mode:     out = remove_complex_nodes(expression or form)
  (H) liveness of (A) on powers with a non-literal exponent (child processes with a time limit).

Oracle
  (A) the input DAG is walked by the harness (ufl_operands only): every operand of every LT/GT/LE/GE,
      MinValue, MaxValue node (what CheckComparisons guards; ufl.sign is lowered to such conditionals
      at construction) is evaluated by the reference interpreter in fully complex worlds (all
      coefficients and constants with imaginary parts, geometry and Arguments real).
        accepted  and some operand has a non-zero imaginary part (confirmed with 50 digits, no
                  conditioning flag)                                   -> violation (unsound inference)
        accepted  -> S(out) == S(in) in real worlds (the Real(...) wrapping must not change the value), and the
                  operands of the guarded nodes of the output have the same values as those of the input
                  (decides where the whole value sits on a tie of the comparison and is therefore inconclusive)
        rejected (ComplexComparisonError) -> allowed; counted, separately when all operands were real
  (B) returned -> no Conj/Real/Imag/ComplexValue node is left and S(out) == S(in) in real worlds;
      an input that contains an Imag node or a ComplexValue literal and is NOT rejected -> violation.
  (H) a child process that has finished its imports and a control input but does not come back from
      do_comparison_check within the time limit -> violation (neither rejects nor wraps).
"""

import os
import subprocess
import sys

import numpy as np

import ufl
from ufl import as_matrix, as_tensor, as_ufl, as_vector, conditional
from ufl.algorithms.apply_algebra_lowering import apply_algebra_lowering
from ufl.algorithms.comparison_checker import ComplexComparisonError, do_comparison_check
from ufl.algorithms.remove_complex_nodes import remove_complex_nodes

from .. import oracle
from ..gen import Gen, Universe
from ..jet import IllConditioned
from ..passcheck import count_verdicts, localise_culprit, safe_str, skeleton
from ..seval import CB, Result, S, StructureMismatch
from ..world import Ambiguous, PolyField, Unsupported, World, element_leaves

LEVEL = "exploration"
ENGINE = "seval"
TECHNIQUE = (
    "runtime monitoring of do_comparison_check / remove_complex_nodes on generated and hostile inputs; the guarded "
    "operands are evaluated by the reference interpreter in fully complex worlds, outputs compared with inputs in real worlds"
)
LEVEL_TEXT = (
    "The real do_comparison_check is run on generated expressions and forms whose ordering comparisons, min_value and "
    "max_value act on provably real, truly-real-but-unprovable, complex and real-domain-leaving operands (ln/acos/asin/"
    "Bessel Y,K of real arguments outside their real domain, powers, conditionals as operands, list/component tensors, "
    "derivatives, restrictions, Arguments); whenever it accepts, every guarded operand of the input is evaluated in "
    "complex worlds and must have zero imaginary part (non-zero ones are confirmed with 50 digits), and output and input "
    "are compared in real worlds.  The real remove_complex_nodes is run on expressions with Conj/Real/Imag nodes and "
    "complex literals at many positions: Imag and ComplexValue must be rejected, otherwise no complex node may be left "
    "and the value must be unchanged for real data.  Exploration over generated cases."
)
LEVEL_NOTE = (
    "trusted: vf/seval.py complex arithmetic (principal branches of numpy/mpmath), vf/world.py; Arguments are given real "
    "fields (the checker's documented assumption); bounds: depth<=3 operands, affine simplex cells, degree<=3"
)
RULE = (
    "case i = (mode complex/real, template (random generator with conj/real/imag and conditionals, or hostile operand "
    "kinds provably-real / real-unprovable / complex / domain-leaving under lt,gt,le,ge,min,max,sign,And,Or,Not, nested "
    "conditionals), expression or form, cell, integral type); distinct = (mode, outcome, skeleton depth 3, cell); non-trivial = "
    "complex mode: the input has at least one guarded node; real mode: the input has a Conj/Real/Imag/ComplexValue node"
)
ASSUMPTIONS = [
    "Arguments are real-valued (basis functions), geometry is real",
    "'may be complex' is judged by evaluation at 3 random complex worlds: an operand is complex when its imaginary part exceeds "
    "1e-6 relative in a world without conditioning flags and this is confirmed with 50 digits",
    "on the branch cuts of acos/asin (real |x|>1) either side of the cut has the same non-zero |imaginary part|, so the on-cut flag "
    "does not make the imaginary-part test inconclusive",
    "powers with a non-literal exponent are only exercised in child processes (the liveness probe), never in-process",
]
BUDGET = {"quick": 50, "thorough": 400}
NCASES = {"quick": 6000, "thorough": 120000}
CASE_TIMEOUT = 30.0
EVAL_COUNTER = "cases"
FLOORS = {'quick': {'sound_accepts': 400, 'rejected_truly_complex': 320, 'complex_value_held': 550, 'real_must_raise_raised': 400, 'real_value_held': 400, 'operands_checked': 4500, 'guard_operands_held': 400}, 'thorough': {'sound_accepts': 8000, 'rejected_truly_complex': 7000, 'complex_value_held': 11000, 'real_must_raise_raised': 8500, 'real_value_held': 7500, 'operands_checked': 90000, 'guard_operands_held': 8000, 'suite:remove_complex_nodes:held': 50}}
COVER_FLOORS = {
    "quick": {"guards_soundly_accepted": ["LT", "GT", "LE", "GE", "MinValue", "MaxValue"], "hang_probe": ["done"]},
    "thorough": {"guards_soundly_accepted": ["LT", "GT", "LE", "GE", "MinValue", "MaxValue"], "hang_probe": ["done"]},
}

CELLS = [("interval", 1), ("triangle", 2), ("triangle", 2), ("tetrahedron", 3), ("triangle", 3)]
GUARDS = ("LT", "GT", "LE", "GE", "MinValue", "MaxValue")
COMPLEX_NODES = ("Conj", "Real", "Imag", "ComplexValue")
BENIGN_FLAGS = {"acos:on-branch-cut", "asin:on-branch-cut"}
IM_ZERO = 1e-12
IM_NONZERO = 1e-6
NUMERIC = (ZeroDivisionError, OverflowError, FloatingPointError, np.linalg.LinAlgError)


# ------------------------------------------------------------------------------- walking


def walk(e):
    """All distinct nodes reachable through ufl_operands with the restriction side they live under."""
    seen = set()
    stack = [(e, None)]
    while stack:
        o, side = stack.pop()
        if (id(o), side) in seen:
            continue
        seen.add((id(o), side))
        yield o, side
        inner = side
        if type(o).__name__ in ("PositiveRestricted", "NegativeRestricted"):
            inner = o._side
        for c in o.ufl_operands:
            stack.append((c, inner))


def integrands_of(obj):
    if hasattr(obj, "integrals"):
        return [itg.integrand() for itg in obj.integrals()]
    return [obj]


def classes_in(obj):
    out = set()
    for e in integrands_of(obj):
        for o, _ in walk(e):
            out.add(type(o).__name__)
    return out


def guards_in(obj):
    """[(guard node, side)] of the input."""
    out = []
    for e in integrands_of(obj):
        for o, side in walk(e):
            if type(o).__name__ in GUARDS:
                out.append((o, side))
    return out


def arguments_in(obj):
    out = []
    for e in integrands_of(obj):
        for o, _ in walk(e):
            if type(o).__name__ == "Argument" and o not in out:
                out.append(o)
    return out


# ------------------------------------------------------------------------------- worlds


def complex_worlds(rng, cell, gdim, itype, args, n=3):
    ws = []
    for _ in range(n):
        w = World(rng, cell, gdim, itype, True)
        for a in args:
            degs, degs_j = [], []
            for kind, rshape, deg, cont in element_leaves(a.ufl_element()):
                k = int(np.prod(rshape, dtype=int))
                degs.extend([deg] * k)
                degs_j.extend([max(deg - 1, 0)] * k)
            for s in w.sides:
                w.set_field(a, s, PolyField(rng, w.tdim, degs, False))
            w.qfields[w.resolve(a)] = PolyField(rng, w.tdim, degs_j, False)
        ws.append(w)
    return ws


def _imag_of(r, B):
    arr = B.to_complex(r.arr) if B is not CB else np.asarray(r.arr)
    if arr.size == 0:
        return 0.0, 1.0, True
    fin = bool(np.all(np.isfinite(arr)))
    with np.errstate(all="ignore"):
        scale = max(1.0, float(np.max(np.abs(arr)))) if fin else 1.0
        im = float(np.max(np.abs(arr.imag))) if fin else 0.0
    return im, scale, fin


def operand_status(op, side, worlds):
    """('real'|'complex'|'undecided', world or None, relative imaginary part)."""
    n_real = 0
    for w in worlds:
        try:
            r = S(op, w, CB, side=side)
        except (Unsupported, Ambiguous, StructureMismatch, IllConditioned) + NUMERIC:
            continue
        if set(r.flags) - BENIGN_FLAGS:
            continue
        im, scale, fin = _imag_of(r, CB)
        if not fin:
            continue
        if im <= IM_ZERO * scale:
            n_real += 1
        elif im > IM_NONZERO * scale:
            B = oracle.mp_backend()
            try:
                r2 = S(op, w, B, side=side)
            except Exception:
                continue
            if set(r2.flags) - BENIGN_FLAGS:
                continue
            im2, scale2, fin2 = _imag_of(r2, B)
            if fin2 and im2 > IM_NONZERO * scale2:
                return "complex", w, im2 / scale2
    return ("real" if n_real >= 2 else "undecided"), None, 0.0


def _is_value(o):
    n = type(o).__name__
    return not (n in ("MultiIndex", "Label", "ExprList", "ExprMapping", "EQ", "NE", "LT", "GT", "LE", "GE") or n.endswith("Condition"))


def first_complex(o, side, w, depth=0):
    """Smallest sub-expression with a non-zero imaginary part all of whose value operands are real (in world w)."""

    def cplx(x, s):
        try:
            r = S(x, w, CB, side=s)
        except Exception:
            return False
        im, scale, fin = _imag_of(r, CB)
        return fin and im > IM_NONZERO * scale

    inner = side
    if type(o).__name__ in ("PositiveRestricted", "NegativeRestricted"):
        inner = o._side
    if depth < 60:
        for c in o.ufl_operands:
            if _is_value(c) and cplx(c, inner):
                return first_complex(c, inner, w, depth + 1)
    return o


def culprit_name(o):
    return type(o).__name__


# ------------------------------------------------------------------------------- hostile inputs


class Hostile:
    """Operands of four kinds for the comparison checker:
    rp  real and provably so for CheckComparisons      zc  complex for complex data
    ru  real in truth, not provable by the checker     dl  'real' for the checker, leaves the real domain
    """

    def __init__(self, rng, U, G, args=()):
        self.rng, self.U, self.G = rng, U, G
        self.args = list(args)
        self.interior = U.interior
        sc = [n for n in ("P1", "P2", "DG1", "DG0", "P3") if n in U.spaces]
        vc = [n for n in U.spaces if len(U.spaces[n].value_shape) == 1 and U.cat[n].vf_kind == "identity"]
        self.scalar_names = sc
        self.vector_names = vc

    # -- leaves
    def R(self, e):
        return e(self.rng.choice("+-")) if self.interior else e

    def f0(self):
        return self.U.coef(self.rng.choice(self.scalar_names), self.rng.randrange(2))

    def fs(self):
        return self.R(self.f0())

    def fvec(self):
        return self.R(self.U.coef(self.rng.choice(self.vector_names), self.rng.randrange(2)))

    def xk(self):
        return self.R(self.U.x)[self.rng.randrange(self.U.gdim)]

    def lit(self):
        return as_ufl(self.rng.choice([0.5, 1.5, -0.25, 2.75, 3, -2, 0.125, 1, -1.5]))

    def geo(self):
        q = self.G.geometric_scalar("need" if self.interior else "free")
        return q if q is not None else self.R(ufl.CellVolume(self.U.mesh))

    # -- complex valued
    def zc(self):
        rng = self.rng
        k = rng.randrange(14)
        if k == 0 or k == 1:
            return self.fs()
        if k == 2:
            v = self.fvec()
            return v[rng.randrange(v.ufl_shape[0])]
        if k == 3:
            return self.U.const((), rng.randrange(2))
        if k == 4:
            return self.fs() * self.xk()
        if k == 5:
            return self.fs() + self.lit()
        if k == 6:
            return ufl.conj(self.fs())
        if k == 7:
            return self.fs() ** 2
        if k == 8:
            return ufl.sin(0.25 * self.fs())
        if k == 9:
            return as_vector([ufl.real(self.fs()), self.fs()])[1]
        if k == 10:
            return conditional(ufl.lt(self.xk(), 0.3), ufl.real(self.fs()), self.fs())
        if k == 11:
            return as_ufl(rng.choice([0.5 + 0.5j, 1j, 2 - 1j])) * self.rp(0)
        if k == 12:
            return self.R(ufl.grad(self.f0()))[rng.randrange(self.U.gdim)]
        return self.rp(0) + as_ufl(1j) * (2 + abs(self.fs()))

    # -- provably real
    def rp(self, depth=1):
        rng = self.rng
        if depth <= 0:
            k = rng.randrange(9 if not self.args else 10)
            if k == 0:
                return abs(self.zc())
            if k == 1 or k == 2:
                return ufl.real(self.zc())
            if k == 3:
                return ufl.imag(self.zc())
            if k == 4:
                return self.xk()
            if k == 5:
                return self.geo()
            if k == 6:
                return self.lit()
            if k == 7:
                return ufl.conj(ufl.real(self.zc()))
            if k == 8:
                return self.R(ufl.grad(ufl.real(self.f0())))[rng.randrange(self.U.gdim)]
            a = rng.choice(self.args)
            a = self.R(a)
            return a[tuple(rng.randrange(d) for d in a.ufl_shape)] if a.ufl_shape else a
        sub = lambda: self.rp(depth - 1)  # noqa: E731
        pos = lambda: 2 + abs(self.zc())  # noqa: E731
        k = rng.randrange(20)
        if k == 0:
            return sub() + sub()
        if k == 1:
            return sub() * sub()
        if k == 2:
            return sub() / pos()
        if k == 3:
            return sub() ** rng.choice([2, 3, 2.0])
        if k == 4:
            return pos() ** rng.choice([-1, -2, -1.0])
        if k == 5:
            return getattr(ufl, rng.choice(["sin", "cos", "atan", "tanh", "erf"]))(sub())
        if k == 6:
            return getattr(ufl, rng.choice(["exp", "cosh", "sinh"]))(ufl.tanh(sub()))
        if k == 7:
            return ufl.bessel_J(rng.choice([0, 1, 2]), sub())
        if k == 8:
            return conditional(self.cmp(sub(), sub()), sub(), sub())
        if k == 9:
            return rng.choice([ufl.max_value, ufl.min_value])(sub(), sub())
        if k == 10:
            return as_vector([sub(), sub(), sub()])[rng.randrange(3)]
        if k == 11:
            return ufl.dot(as_vector([sub(), sub()]), as_vector([sub(), sub()]))
        if k == 12:
            return ufl.det(as_matrix([[sub(), sub()], [sub(), sub()]]))
        if k == 13:
            return ufl.ln(pos())
        if k == 14:
            return rng.choice([ufl.acos, ufl.asin])(0.5 * ufl.tanh(sub()))
        if k == 15:
            return -sub()
        if k == 16:
            return ufl.inner(as_vector([sub(), sub()]), as_vector([sub(), sub()]))
        if k == 17:
            return ufl.tr(as_matrix([[sub(), sub()], [sub(), sub()]]))
        if k == 18:
            return ufl.atan2(sub(), pos())
        return self.rp(0)

    # -- real in truth, not provable
    def ru(self, depth=1):
        rng = self.rng
        i = self.U.idx[rng.randrange(4)]
        k = rng.randrange(9)
        if k == 0:
            z = self.zc()
            return z * ufl.conj(z)
        if k == 1:
            v = self.fvec()
            return ufl.inner(v, v)
        if k == 2:
            return ufl.sqrt(2 + abs(self.zc()))
        if k == 3:
            return (2 + abs(self.zc())) ** rng.choice([0.5, 1.5, -0.5])
        if k == 4:
            a, b = as_vector([self.rp(depth - 1), self.rp(0)]), as_vector([self.rp(0), self.rp(depth - 1)])
            return a[i] * b[i]
        if k == 5:
            return ufl.variable(self.rp(depth - 1))
        if k == 6:
            a = as_vector([self.rp(0), self.rp(depth - 1)])
            return as_tensor(a[i] * self.rp(0), (i,))[rng.randrange(2)]
        if k == 7:
            z = self.zc()
            return ufl.conj(z) + z
        return ufl.Identity(2)[0, 0] * self.rp(depth - 1)

    # -- 'real' for the checker, but outside the real domain of the function
    def dl(self, depth=1):
        rng = self.rng
        neg = lambda: -1 - abs(self.zc())  # noqa: E731
        k = rng.randrange(17)
        if k == 12:
            return neg() ** rng.choice([0.5, 1.5, -0.5, 2.5])
        if k == 13:
            return ufl.real(self.fs()) ** rng.choice([0.5, 1.5, -0.5])
        if k == 14:
            return ufl.sqrt(neg())
        if k == 15:
            return ufl.sqrt(ufl.real(self.fs())) * self.rp(0)
        if k == 16:
            return (self.xk() - 7.5) ** rng.choice([0.5, -1.5]) + self.rp(0)
        if k == 0:
            return ufl.ln(neg())
        if k == 1:
            return ufl.ln(-(2 + self.rp(0) ** 2))
        if k == 2:
            return ufl.acos(2 + abs(self.zc()))
        if k == 3:
            return ufl.asin(-2 - self.rp(0) ** 2)
        if k == 4:
            return ufl.bessel_Y(rng.choice([0, 1]), neg())
        if k == 5:
            return ufl.bessel_K(rng.choice([0, 1]), neg())
        if k == 6:
            return ufl.atan(ufl.ln(neg())) + self.rp(0)
        if k == 7:
            return 3 + ufl.ln(neg()) * self.rp(0)
        if k == 8:
            return ufl.ln(self.xk() - 7.5)
        if k == 9:
            return ufl.ln(ufl.real(self.fs()))
        if k == 10:
            return ufl.acos(2 * ufl.real(self.fs()))
        return conditional(self.cmp(self.rp(0), self.rp(0)), ufl.ln(neg()), self.rp(0))

    def operand(self, kind, depth):
        return {"rp": self.rp, "ru": self.ru, "dl": self.dl}[kind](depth) if kind != "zc" else self.zc()

    def cmp(self, a, b):
        return getattr(ufl, self.rng.choice(["lt", "gt", "le", "ge"]))(a, b)

    def any_value(self):
        return self.zc() if self.rng.random() < 0.5 else self.rp(1)

    def guard(self, a, b):
        """A scalar value whose evaluation needs an ordering of a and b."""
        rng = self.rng
        k = rng.randrange(12)
        if rng.random() < 0.5:
            a, b = b, a
        if k < 4:
            return conditional(self.cmp(a, b), self.any_value(), self.any_value())
        if k == 4:
            return ufl.max_value(a, b)
        if k == 5:
            return ufl.min_value(a, b)
        if k == 6:
            return ufl.sign(a) * b
        if k == 7:
            c2 = ufl.gt(self.rp(0), 0.25)
            return conditional(rng.choice([ufl.And, ufl.Or])(self.cmp(a, b), c2), self.any_value(), self.any_value())
        if k == 8:
            return conditional(ufl.Not(self.cmp(a, b)), self.any_value(), self.any_value())
        if k == 9:
            # a conditional as the operand of a comparison
            inner = conditional(self.cmp(self.rp(0), self.rp(0)), a, b)
            return conditional(self.cmp(inner, self.rp(0)), self.any_value(), self.any_value())
        if k == 10:
            return conditional(ufl.And(ufl.ne(self.zc(), self.zc()), self.cmp(a, b)), self.any_value(), self.rp(0))
        return rng.choice([ufl.max_value, ufl.min_value])(ufl.max_value(a, self.rp(0)), b)

    def wrap(self, e):
        rng = self.rng
        k = rng.randrange(10)
        if k == 0:
            return e * self.zc()
        if k == 1:
            return e + self.any_value()
        if k == 2:
            return as_vector([e, self.zc()])[self.U.idx[0]] * as_vector([self.rp(0), self.zc()])[self.U.idx[0]]
        if k == 3:
            return ufl.variable(e) * 2
        if k == 4:
            return abs(e)
        if k == 5:
            return e**2
        if k == 6 and not self.interior:
            return ufl.grad(e)[rng.randrange(self.U.gdim)]
        if k == 7:
            return ufl.conj(e) * self.any_value()
        return e


PAIRS = [("rp", "rp")] * 8 + [("rp", "zc")] * 4 + [("rp", "ru")] * 3 + [("rp", "dl")] * 3 + [("ru", "zc"), ("zc", "zc"), ("dl", "dl"), ("ru", "ru")]


def build_complex_input(rng, U, G, template, args):
    H = Hostile(rng, U, G, args)
    kinds = []
    if template == "gen":
        e = G.expr((), rng.choice([2, 3]))
        if rng.random() < 0.3:
            ka, kb = rng.choice(PAIRS)
            kinds.append((ka, kb))
            e = e * H.guard(H.operand(ka, 1), H.operand(kb, 1))
        return e, kinds
    n = rng.choice([1, 1, 1, 2])
    e = None
    for _ in range(n):
        ka, kb = rng.choice(PAIRS)
        kinds.append((ka, kb))
        g = H.wrap(H.guard(H.operand(ka, rng.choice([0, 1, 2])), H.operand(kb, rng.choice([0, 1]))))
        e = g if e is None else (e + g if rng.random() < 0.5 else e * g)
    if rng.random() < 0.25:
        e = e * G.expr((), 1)
    return e, kinds


def build_real_input(rng, U, G, template):
    """Real-mode input; its class is decided afterwards from the nodes that are really in the tree."""
    H = Hostile(rng, U, G)
    f, f2 = H.f0(), H.f0()
    gv = U.coef(rng.choice(H.vector_names), 0)
    if template == "gen-cplx":
        G2 = Gen(U, rng, cplx=True, deriv=G.deriv, cond=False, math=G.math, geom=G.geom)
        return G2.expr((), rng.choice([1, 2, 2]))
    G.extra = [ufl.conj(f), ufl.real(f), ufl.conj(gv), ufl.real(gv), ufl.conj(ufl.real(f2)), ufl.real(f2) * ufl.conj(f)]
    G.extra_prob = 0.5
    e = G.expr((), rng.choice([1, 2, 3]))
    sub = G.expr((), 1)
    r = rng.random()
    if r < 0.3:
        e = ufl.conj(e) * ufl.real(sub)
    elif r < 0.45:
        n = rng.choice([2, 3])
        e = e + ufl.inner(G.expr((n,), 1), G.expr((n,), 1))
    elif r < 0.55:
        n = rng.choice([2, 3])
        e = e + ufl.dot(ufl.outer(G.expr((n,), 1), G.expr((n,), 1)), G.expr((n,), 1))[0]
    if template == "lowered":
        e = apply_algebra_lowering(e)
    if template == "imag":
        k = rng.randrange(9)
        im = ufl.imag(sub if rng.random() < 0.5 else H.R(f))
        if k == 0:
            e = e * im
        elif k == 1:
            e = conditional(ufl.lt(im, 0.1), e, 1.0)
        elif k == 2:
            e = as_vector([e, im])[U.idx[1]] * as_vector([sub, e])[U.idx[1]]
        elif k == 3:
            e = e * (1 + im)
        elif k == 4 and not U.interior:
            e = e + ufl.grad(ufl.imag(f))[0]
        elif k == 5:
            e = e + ufl.variable(im)
        elif k == 6:
            e = ufl.max_value(e, im)
        elif k == 7:
            e = e + abs(im) ** 2
        else:
            e = ufl.sin(ufl.conj(e + im))
    if template == "literal":
        k = rng.randrange(7)
        cv = as_ufl(rng.choice([1j, 0.5 + 0.5j, 2 - 1j, -0.25j]))
        if k == 0:
            e = e * cv
        elif k == 1:
            e = e + cv
        elif k == 2:
            e = conditional(ufl.lt(e, 1), cv, 2.0) * sub
        elif k == 3:
            e = (3 + e * e) ** cv
        elif k == 4:
            e = as_vector([cv, e])[U.idx[2]] * as_vector([sub, e])[U.idx[2]]
        elif k == 5:
            e = ufl.exp(cv * ufl.tanh(e))
        else:
            e = ufl.real(cv * e)
    return as_ufl(e)


def as_form(rng, U, e, args):
    """e -> form with one or two integrals; args = [] or [test function] (the form is linear in it)."""
    lin = None
    if args:
        v = args[0](rng.choice("+-")) if U.interior else args[0]
        lin = v[tuple(rng.randrange(d) for d in v.ufl_shape)] if v.ufl_shape else v
        e = e * lin
    form = e * U.measure(rng.choice([None, 1, 2]))
    if rng.random() < 0.4:
        x0 = U.x[0]("+") if U.interior else U.x[0]
        form = form + (x0 * lin if lin is not None else x0) * U.measure(3)
    return form


# ------------------------------------------------------------------------------- value comparison


def value_verdicts(obj_in, obj_out, worlds):
    ins, outs = integrands_of(obj_in), integrands_of(obj_out)
    if not hasattr(obj_in, "integrals"):
        return oracle.preserved(ins[0], outs[0], worlds)

    def total(es, w, B):
        tot, flags, mx = None, set(), 0.0
        for e in es:
            r = S(e, w, B)
            if r.rank or r.fi:
                raise StructureMismatch("integrand is not a scalar")
            tot = r.arr if tot is None else tot + r.arr
            flags |= r.flags
            mx = max(mx, r.maxabs)
        if tot is None:
            tot = B.zeros(())
        return Result(tot, 0, (), flags, mx)

    return [oracle.compare_once(lambda w, B: total(ins, w, B), lambda w, B: total(outs, w, B), w) for w in worlds]


def judge_value(ctx, prefix, obj_in, obj_out, worlds):
    vs = value_verdicts(obj_in, obj_out, worlds)
    count_verdicts(ctx, vs, prefix + "_")
    kinds = [v.kind for v in vs]
    if any(k in ("input-structure", "input-ambiguous") for k in kinds):
        return "skipped", None
    v = oracle.decide(vs)
    bad = None
    if "output-ambiguous" in kinds:
        v = "violated"
    if v == "violated":
        bad = next(x for x in vs if x.kind in ("disagree", "output-ambiguous"))
    return v, bad


class _NotClean(Exception):
    pass


def guard_signatures(obj, w, need_real):
    """[(guard class, [operand value arrays])] of obj in world w; raises _NotClean when an operand cannot be evaluated cleanly."""
    sigs = []
    for g, side in guards_in(obj):
        vals = []
        for op in g.ufl_operands:
            try:
                r = S(op, w, CB, side=side)
            except (Unsupported, Ambiguous, StructureMismatch, IllConditioned) + NUMERIC as ex:
                raise _NotClean(type(ex).__name__)
            arr = np.asarray(r.arr)
            if r.flags or not np.all(np.isfinite(arr)):
                raise _NotClean("flags")
            if need_real and arr.size and float(np.max(np.abs(arr.imag))) > IM_ZERO * max(1.0, float(np.max(np.abs(arr)))):
                raise _NotClean("complex operand for real data")
            vals.append(arr)
        sigs.append((type(g).__name__, vals))
    return sigs


def _close(a, b):
    if a.shape != b.shape:
        return False
    if a.size == 0:
        return True
    return float(np.max(np.abs(a - b))) <= 1e-7 * max(1.0, float(np.max(np.abs(a))), float(np.max(np.abs(b))))


def _covered(xs, ys):
    """every guard of xs has a guard of the same class with the same operand values in ys."""
    for nx, vx in xs:
        if not any(nx == ny and len(vx) == len(vy) and all(_close(a, b) for a, b in zip(vx, vy)) for ny, vy in ys):
            return (nx, vx)
    return None


def guard_operands_preserved(obj_in, obj_out, worlds):
    """Per real world: are the operand values of the guarded nodes the same in output and input?  (the Real(...)
    wrapping must not change them for real data).  Guards are matched as sets: the pass may merge equal nodes."""
    verdicts = []
    witness = None
    for w in worlds:
        try:
            si = guard_signatures(obj_in, w, True)
            so = guard_signatures(obj_out, w, False)
        except _NotClean:
            verdicts.append("inconclusive")
            continue
        miss = _covered(so, si) or _covered(si, so)
        verdicts.append("agree" if miss is None else "disagree")
        if miss is not None and witness is None:
            witness = (miss[0], [complex(np.ravel(v)[0]) if v.size else None for v in miss[1]], si)
    return verdicts, witness


# ------------------------------------------------------------------------------- the two monitors


def monitor_complex(ctx, i, rng, cell, gdim, itype):
    ctx.count("complex_cases")
    U = Universe(rng, cell, gdim, itype, True)
    G = Gen(U, rng, cplx=True, deriv=rng.choice([0, 0, 1]), cond=True, math=rng.random() < 0.6, geom=rng.random() < 0.5)
    template = "gen" if rng.random() < 0.25 else "hostile"
    is_form = rng.random() < 0.25
    args = [U.arg(rng.choice(["P1", "P2", "P1v"]), 0)] if is_form and rng.random() < 0.6 else []
    try:
        e, kinds = build_complex_input(rng, U, G, template, args)
        e = as_ufl(e)
        obj = e
        if is_form:
            obj = as_form(rng, U, e, args)
    except Exception as ex:
        ctx.count("build_rejected")
        ctx.covered("build_rejected_with", type(ex).__name__)
        return
    guards = guards_in(obj)
    try:
        out = do_comparison_check(obj)
        outcome = "accepted"
    except ComplexComparisonError:
        out = None
        outcome = "rejected"
    except Exception as ex:
        ctx.count("complex_rejected_other_error")
        ctx.covered("complex_rejected_other_with", type(ex).__name__ + ": " + str(ex)[:60])
        return
    ctx.count("complex_" + outcome)
    if not guards:
        ctx.count("complex_" + outcome + "_without_guard")
    # ---- (i) truth about the guarded operands, in complex worlds
    try:
        cworlds = complex_worlds(rng, cell, gdim, itype, arguments_in(obj))
    except Unsupported:
        ctx.count("world_unsupported")
        return
    statuses = []
    seen = set()
    worst = None
    for g, side in guards:
        for op in g.ufl_operands:
            if (id(op), side) in seen:
                continue
            seen.add((id(op), side))
            st, w, rel = operand_status(op, side, cworlds)
            ctx.count("operands_checked")
            ctx.count("operands_" + st)
            statuses.append((st, type(g).__name__))
            if st == "complex" and worst is None:
                worst = (g, side, op, w, rel)
    all_real = bool(statuses) and all(s == "real" for s, _ in statuses)
    any_complex = any(s == "complex" for s, _ in statuses)
    desc = {"template": template, "operand_kinds": kinds, "form": is_form, "cell": [cell, gdim], "itype": itype}
    if outcome == "rejected":
        if any_complex:
            ctx.count("rejected_truly_complex")
        elif all_real:
            ctx.count("rejected_though_real")
            if len(kinds) == 1:
                ctx.covered("rejected_though_real_kinds", ",".join(kinds[0]))
        else:
            ctx.count("rejected_undecided")
        if guards:
            ctx.add_distinct(("complex", "rejected", skeleton(integrands_of(obj)[0], 3), cell))
        ctx.sample({"mode": "complex", "outcome": "rejected", "truth": "complex" if any_complex else ("real" if all_real else "undecided"), **desc,
                    "input": safe_str(obj, 240)}, limit=2)
        return
    # accepted
    if any_complex:
        g, side, op, w, rel = worst
        culprit = first_complex(op, side, w)
        ctx.count("accepted_complex_operand")
        ctx.violation(
            f"C23/complex/accepted-complex-operand/{culprit_name(culprit)}",
            f"do_comparison_check accepted a {type(g).__name__} whose operand has imaginary part {rel:.3g} (relative) in a complex world; "
            f"it becomes complex at: {safe_str(culprit, 200)}",
            {"operand": safe_str(op, 500), "guard": safe_str(g, 600), "input": safe_str(obj, 1200), "output": safe_str(out, 1200), "world": w.describe(), **desc},
        )
        return
    if guards and all_real:
        ctx.count("sound_accepts")
        for _, gname in statuses:
            ctx.covered("guards_soundly_accepted", gname)
    elif guards:
        ctx.count("accepted_operands_undecided")
    # ---- (ii) value preservation for real data
    try:
        rworlds = oracle.worlds_for(rng, cell, gdim, itype, False, n=3)
    except Unsupported:
        ctx.count("world_unsupported")
        return
    v, bad = judge_value(ctx, "cval", obj, out, rworlds)
    ctx.count("complex_value_" + v)
    if v == "violated":
        def apply(x):
            try:
                return do_comparison_check(x)
            except ComplexComparisonError as ex:
                raise RuntimeError(str(ex))

        culprit = None
        if not is_form:
            culprit = localise_culprit(obj, apply, rworlds)
        key = skeleton(culprit, 1) if culprit is not None else "whole-input"
        ctx.violation(
            f"C23/complex/value-changed/{key}",
            f"do_comparison_check changed the value for real data ({bad.kind}, rel. err {bad.err}, {bad.why})",
            {"input": safe_str(obj, 1200), "output": safe_str(out, 1200), "culprit": safe_str(culprit, 400), "world": rworlds[0].describe(), **desc},
        )
        return
    if guards:
        gv, wit = guard_operands_preserved(obj, out, rworlds)
        for x in gv:
            ctx.count("guardops_world_" + x)
        if gv.count("disagree") >= 2 and "agree" not in gv:
            ctx.count("guard_operands_changed")
            ctx.violation(
                f"C23/complex/guard-operand-changed/{wit[0]}",
                f"for real data the operands of a {wit[0]} in the output of do_comparison_check have other values ({wit[1]}) than those of any {wit[0]} in the input",
                {"input": safe_str(obj, 1200), "output": safe_str(out, 1200), "world": rworlds[0].describe(), **desc},
            )
            return
        if gv.count("agree") >= 2 and "disagree" not in gv:
            ctx.count("guard_operands_held")
    if v == "held" and guards:
        ctx.add_distinct(("complex", "accepted", skeleton(integrands_of(obj)[0], 3), cell))
        ctx.sample({"mode": "complex", "outcome": "accepted", **desc, "guards": len(guards), "input": safe_str(obj, 240), "output": safe_str(out, 240)}, limit=2)


REAL_TEMPLATES = ["clean", "clean", "lowered", "imag", "imag", "literal", "literal", "gen-cplx"]


def monitor_real(ctx, i, rng, cell, gdim, itype):
    ctx.count("real_cases")
    U = Universe(rng, cell, gdim, itype, False)
    G = Gen(U, rng, cplx=False, deriv=rng.choice([0, 1, 1]), cond=rng.random() < 0.4, math=rng.random() < 0.5, geom=rng.random() < 0.5)
    template = REAL_TEMPLATES[(i // 2) % len(REAL_TEMPLATES)] if rng.random() < 0.8 else rng.choice(REAL_TEMPLATES)
    is_form = rng.random() < 0.25
    try:
        e = as_ufl(build_real_input(rng, U, G, template))
        obj = e
        if is_form:
            obj = as_form(rng, U, e, [U.arg(rng.choice(["P1", "P2", "P1v"]), 0)] if rng.random() < 0.6 else [])
    except Exception as ex:
        ctx.count("build_rejected")
        ctx.covered("build_rejected_with", type(ex).__name__)
        return
    names = classes_in(obj)
    has_imag = "Imag" in names
    has_cv = "ComplexValue" in names
    has_any = bool(names & set(COMPLEX_NODES))
    must_raise = has_imag or has_cv
    klass = "imag" if has_imag else ("literal" if has_cv else ("conj-real" if has_any else "plain"))
    try:
        out = remove_complex_nodes(obj)
        raised = None
    except Exception as ex:
        out = None
        raised = ex
    desc = {"template": template, "class": klass, "form": is_form, "cell": [cell, gdim], "itype": itype}
    if raised is not None:
        ctx.count("real_rejected")
        ctx.covered("real_rejected_with", type(raised).__name__ + ": " + str(raised)[:50])
        if must_raise:
            ctx.count("real_must_raise_raised")
            ctx.covered("must_raise_classes", klass)
            ctx.add_distinct(("real", "rejected", klass, skeleton(integrands_of(obj)[0], 3), cell))
            ctx.sample({"mode": "real", "outcome": "rejected", **desc, "input": safe_str(obj, 240)}, limit=1)
        else:
            ctx.count("real_rejected_without_imag_or_literal")
        return
    ctx.count("real_accepted")
    if must_raise:
        ctx.violation(
            "C23/real/accepted-" + ("imag" if has_imag else "complex-literal"),
            "remove_complex_nodes returned although the input contains " + ("an Imag node" if has_imag else "a complex literal"),
            {"input": safe_str(obj, 1200), "output": safe_str(out, 1200), **desc},
        )
        return
    left = [o for e2 in integrands_of(out) for o, _ in walk(e2) if type(o).__name__ in COMPLEX_NODES]
    if left:
        first = left[0]
        inner = "-of-" + type(first.ufl_operands[0]).__name__ if first.ufl_operands else ""
        ctx.count("real_complex_node_left")
        ctx.violation(
            "C23/real/complex-node-left/" + type(first).__name__ + inner,
            f"remove_complex_nodes left {sorted({type(o).__name__ for o in left})} nodes in its output, e.g. {safe_str(first, 200)}",
            {"input": safe_str(obj, 1200), "output": safe_str(out, 1200), **desc},
        )
        return
    try:
        rworlds = oracle.worlds_for(rng, cell, gdim, itype, False, n=3)
    except Unsupported:
        ctx.count("world_unsupported")
        return
    v, bad = judge_value(ctx, "rval", obj, out, rworlds)
    ctx.count("real_value_" + v)
    if v == "violated":
        culprit = None
        if not is_form:
            culprit = localise_culprit(obj, remove_complex_nodes, rworlds)
        key = skeleton(culprit, 1) if culprit is not None else "whole-input"
        ctx.violation(
            f"C23/real/value-changed/{key}",
            f"remove_complex_nodes changed the value for real data ({bad.kind}, rel. err {bad.err}, {bad.why})",
            {"input": safe_str(obj, 1200), "output": safe_str(out, 1200), "culprit": safe_str(culprit, 400), "world": rworlds[0].describe(), **desc},
        )
        return
    if v == "held" and has_any:
        ctx.count("real_nontrivial_held")
        ctx.add_distinct(("real", "accepted", skeleton(integrands_of(obj)[0], 3), cell))
        ctx.sample({"mode": "real", "outcome": "accepted", **desc, "input": safe_str(obj, 240), "output": safe_str(out, 240)}, limit=1)


def monitor_pipeline(ctx, rng):
    """What compute_form_data DELIVERS: comparisons and complex nodes that later passes create (the derivative of abs is
    sign(.), a conditional; integral scaling multiplies by abs(detJ), which a shape derivative differentiates) come after
    the comparison check / may come after the real-mode clean-up.
    complex mode: no ordering comparison, min or max over an operand that is complex in a complex world is delivered;
    real mode:    no Conj / Real / Imag node is delivered."""
    from ufl.algorithms import compute_form_data

    cell, gdim = rng.choice([("interval", 1), ("triangle", 2), ("triangle", 2), ("tetrahedron", 3)])
    cplx = rng.random() < 0.55
    U = Universe(rng, cell, gdim, "cell", cplx)
    G = Gen(U, rng, cplx=cplx, deriv=0, cond=False, math=rng.random() < 0.5, geom=False)
    f, g = U.coef("P2", 0), U.coef("P1", 1)
    x = U.x
    try:
        h = rng.choice([lambda: f, lambda: f * g + G.expr((), 1), lambda: G.expr((), 1) * f, lambda: f * f - g])()
        kind = rng.choice(["gateaux-abs", "gateaux-abs-arg", "grad-abs", "second-abs", "shape", "shape-abs-x"])
        if kind == "gateaux-abs":
            form = ufl.derivative(abs(h) * g * ufl.dx(domain=U.mesh), f, U.coef("P2", 2))
        elif kind == "gateaux-abs-arg":
            form = ufl.derivative(ufl.inner(abs(h), U.arg("P2", 0)) * ufl.dx(domain=U.mesh), f, U.arg("P2", 1))
        elif kind == "grad-abs":
            form = ufl.grad(abs(h))[0] * g * ufl.dx(domain=U.mesh)
        elif kind == "second-abs":
            form = ufl.derivative(ufl.derivative(abs(h) * h * ufl.dx(domain=U.mesh), f, U.coef("P2", 2)), f, U.coef("P2", 3))
        elif kind == "shape":
            form = ufl.derivative(h * h * ufl.dx(domain=U.mesh), x, U.coef("P1v", 0))
        else:
            form = ufl.derivative(abs(x[0] - 0.5) * h * ufl.dx(domain=U.mesh), x, U.coef("P1v", 0))
        shape = kind.startswith("shape")
        fd = compute_form_data(form, complex_mode=cplx, do_apply_function_pullbacks=shape, do_apply_geometry_lowering=shape,
                               do_apply_integral_scaling=shape, do_estimate_degrees=False)
        outs = [itg.integrand() for ida in fd.integral_data for itg in ida.integrals]
    except (Exception, ufl.algorithms.check_arities.ArityMismatch, ComplexComparisonError) as ex:
        ctx.count("pipeline_rejected")
        ctx.covered("pipeline_rejected_with", type(ex).__name__ + ": " + str(ex)[:50])
        return
    ctx.count("pipeline_cases")
    mode = "complex" if cplx else "real"
    if not cplx:
        left = sorted({c for o in outs for c in classes_in(o)} & {"Conj", "Real", "Imag"})
        ctx.count("pipeline_real_checked")
        if left:
            ctx.violation(f"C23/pipeline/real-mode-delivers-complex-node/{left[0]}/{kind}",
                          f"compute_form_data(complex_mode=False) delivers an integrand that still contains {left} ({kind})",
                          {"form": str(form)[:600], "delivered": str(outs[0])[:900]})
        else:
            ctx.count("pipeline_real_held")
            ctx.covered("pipeline_kinds_held", mode + ":" + kind)
        return
    try:
        cworlds = complex_worlds(rng, cell, gdim, "cell", [])
    except Unsupported:
        ctx.count("world_unsupported")
        return
    ok = True
    for o in outs:
        for gnode, side in guards_in(o):
            for op in gnode.ufl_operands:
                st, w, rel = operand_status(op, side, cworlds)
                ctx.count("pipeline_operands_checked")
                if st == "complex":
                    ok = False
                    ctx.violation(f"C23/pipeline/complex-operand-under-{type(gnode).__name__}/delivered/{kind}",
                                  f"compute_form_data(complex_mode=True) delivers {type(gnode).__name__} over an operand that is complex (relative imaginary "
                                  f"part {rel:.3g}) for complex data: {str(op)[:160]} ({kind})",
                                  {"form": str(form)[:600], "delivered": str(o)[:900]})
                    break
            if not ok:
                break
        if not ok:
            break
    if ok:
        ctx.count("pipeline_complex_held")
        ctx.covered("pipeline_kinds_held", mode + ":" + kind)


def case(ctx, i, rng):
    if i < 0:
        run_probes(ctx, [PROBE_INPUTS[-1 - i]])
        return
    if rng.random() < 0.06:
        return monitor_pipeline(ctx, rng)
    cell, gdim = rng.choice(CELLS)
    itype = "interior_facet" if rng.random() < 0.15 else "cell"
    if i % 5 < 3:
        monitor_complex(ctx, i, rng, cell, gdim, itype)
    else:
        monitor_real(ctx, i, rng, cell, gdim, itype)


# ------------------------------------------------------------------------------- liveness probe (child processes)

PROBE = r"""
import sys, warnings
warnings.simplefilter("ignore")
import vf
import ufl
from ufl import *
from ufl.algorithms.comparison_checker import do_comparison_check, ComplexComparisonError
from vf import elements as E
mesh = E.mesh_for("triangle", 2)
V = FunctionSpace(mesh, E.catalogue("triangle", 2)["P1"])
f, g = Coefficient(V), Coefficient(V)
c = Constant(mesh)
x = SpatialCoordinate(mesh)
base = 2 + abs(f)
exponents = {"literal": as_ufl(2), "Indexed-x": x[1], "Constant": c, "Coefficient": g, "Real": real(g), "Abs": abs(g), "Product": 2 * g, "Sin": sin(g)}
def run(name):
    e = conditional(lt(base ** exponents[name], 1.5), 1.0, 2.0)
    try:
        do_comparison_check(e)
        return "accepted"
    except ComplexComparisonError:
        return "rejected"
    except Exception as ex:
        return "error:" + type(ex).__name__
print("CONTROL", run("literal"), flush=True)
print("READY", flush=True)
print("DONE", run(sys.argv[1]), flush=True)
"""
PROBE_INPUTS = ["Indexed-x", "Constant", "Coefficient", "Real"]
HANG_PROBE = True
PROBE_AFTER_READY = 15.0  # seconds a child may take after its imports and its control input are done (a normal run needs < 0.1 s)
PROBE_TOTAL = 50.0  # overall limit; a child that is not READY by then is counted as not started (inconclusive)


def _done(out):
    return any(ln.startswith("DONE ") for ln in out.split("\n")[:-1])


def once(ctx):
    if ctx.sub != 0 or not HANG_PROBE:
        return
    run_probes(ctx, PROBE_INPUTS)
    ctx.case_index = None


def run_probes(ctx, names):
    import select
    import time

    env = dict(os.environ)
    live = {}
    for name in names:
        p = subprocess.Popen([sys.executable, "-B", "-c", PROBE, name], env=env, stdout=subprocess.PIPE, stderr=subprocess.DEVNULL)
        os.set_blocking(p.stdout.fileno(), False)
        live[name] = {"p": p, "out": "", "ready": None, "state": None}
    t0 = time.time()
    try:
        while any(d["state"] is None for d in live.values()):
            now = time.time()
            fds = {d["p"].stdout.fileno(): d for d in live.values() if d["state"] is None}
            rl, _, _ = select.select(list(fds), [], [], 0.25)
            for fd in rl:
                d = fds[fd]
                try:
                    chunk = os.read(fd, 65536)
                except BlockingIOError:
                    chunk = None
                if chunk:
                    d["out"] += chunk.decode(errors="replace")
                    if d["ready"] is None and "READY" in d["out"]:
                        d["ready"] = time.time()
                elif chunk == b"":
                    d["state"] = "exited"
            now = time.time()
            for d in live.values():
                if d["state"] is not None:
                    continue
                if _done(d["out"]):
                    d["state"] = "exited"
                elif d["ready"] is not None and now - d["ready"] > PROBE_AFTER_READY:
                    d["state"] = "hung"
                elif d["ready"] is None and now - t0 > PROBE_TOTAL:
                    d["state"] = "not-started"
    finally:
        for d in live.values():
            if d["p"].poll() is None:
                d["p"].kill()
            try:
                d["p"].wait(timeout=10)
            except Exception:
                pass
            d["p"].stdout.close()
    for name, d in live.items():
        so = d["out"]
        ctx.count("hang_probes")
        if "READY" not in so:
            ctx.count("hang_probe_not_started")
            continue
        if "CONTROL accepted" not in so:
            ctx.count("hang_probe_control_failed")
            continue
        ctx.covered("hang_probe", "done")
        if d["state"] == "hung" and not _done(so):
            ctx.count("hang_probe_hung")
            ctx.case_index = -1 - PROBE_INPUTS.index(name)  # replay: case(ctx, -1-k, rng) runs probe k again
            ctx.violation(
                f"C23/complex/no-verdict-hang/Power-exponent-{name}",
                f"do_comparison_check(conditional(lt((2+abs(f))**<{name}>, 1.5), 1, 2)) did not return within {PROBE_AFTER_READY:.0f} s "
                "(the literal-exponent control in the same process returned at once)",
                {"exponent": name, "stdout": so[-300:]},
            )
        elif _done(so):
            ctx.count("hang_probe_returned")
            ctx.covered("hang_probe_results", name + ":" + so.strip().splitlines()[-1])
        else:
            ctx.count("hang_probe_died")


# ---- additional workload (thorough tier): the calls the repository's own tests make to the two passes; value
# preservation for real data is judged by the reference interpreter (vf/suitemon.py)
EXTRA_JOBS = {"thorough": ["suite"]}


def extra_suite(ctx):
    from ..suite_driver import run_suite

    run_suite(ctx, ["remove_complex_nodes", "do_comparison_check"], "C23")
