"""C29 - commutative constructors are order independent.

Events observed (all produced by the real code in /repo):
  * every call `cmp_expr(a, b)` / `cmp_expr(b, a)` on pairs of operand expressions,
  * every call `sorted_expr(perm)` on all 6 orders of a triple (and on shuffles of longer lists),
  * every construction `a + b` / `b + a`, `a * b` / `b * a`, `inner(a, b)` / `inner(b, a)`.

Oracle (independent of `__eq__`, `__hash__`, `repr`: vf.canon):
  * a pair is *distinguishable* when the index/label-anonymised canons (one common relative
    numbering, `canon_many([a, b], 'anon')`) differ; only for those pairs commutativity is asserted:
      sum      canon_abs(a + b) == canon_abs(b + a)
      product  canon_abs(a * b) == canon_abs(b * a)      (scalar-valued operands, free indices allowed)
      inner    for equal non-scalar shapes: canon_abs(inner(a, b)) == ('Conj', canon_abs(inner(b, a)))
               or the other way round (or both Zero), i.e. exactly what Inner.__new__ promises:
               one order is stored as Inner(x, y) in canonical operand order and the other one is
               Conj of that very node.  For scalar operands inner(a, b) is a * Conj(b), there the
               check is  canon_abs(inner(a, b)) == canon_abs(Conj(b) * a)  (Product sorting).
    and the UFL `==` of the two results must say the same as the canon comparison,
  * `cmp_expr` never raises, returns -1/0/1, cmp(a, b) == -cmp(b, a) on ALL pairs, cmp(a, a) == 0,
    cmp(a, a') == 0 for an equal-but-distinct rebuilt copy a' (all nodes and terminals rebuilt),
  * `<=` derived from cmp_expr is transitive on all triples (with antisymmetry this is exactly
    "total preorder"),
  * sorted_expr gives the same sequence of objects for all 6 orders of every triple whose three
    comparisons are all non-zero; the output of sorted_expr on any list is ascending w.r.t. cmp_expr.
"""

import itertools
import random

import numpy as np

import ufl
from ufl.algebra import Conj
from ufl.classes import (
    ComplexValue,
    ExternalOperator,
    FloatValue,
    IntValue,
    Label,
    Zero,
)
from ufl.core.multiindex import FixedIndex, Index, MultiIndex
from ufl.sorting import cmp_expr, sorted_expr
from vf import elements as E
from vf.canon import canon, canon_many, tree_size
from vf.gen import Gen, Universe

LEVEL = "exploration"
ENGINE = "canon"
TECHNIQUE = (
    "runtime law checker around the real cmp_expr/sorted_expr and the Sum/Product/Inner constructors: curated "
    "all-pairs/all-triples enumeration plus seeded random operand triples, judged by the canonical serialiser"
)
LEVEL_TEXT = (
    "cmp_expr is executed on all ordered pairs of a curated pool of ~430 operands covering every terminal class and "
    "operator family (antisymmetry, transitivity over all triples of the pool) and on random operand lists drawn "
    "through the public API together with one-datum mutants and rebuilt equal copies; every compatible pair is "
    "fed to +, * and inner in both orders and the two results are compared by an independent serialiser. "
    "Sampling, not exhaustive."
)
LEVEL_NOTE = (
    "trusted: vf.canon (serialiser), the notion 'distinguishable' = different index/label-anonymised canon under "
    "one common relative numbering; operands limited to what vf.gen and the curated pool build"
)
RULE = (
    "operand pairs/triples: (1) all ordered pairs and all triples of a deterministic pool (literals int/float/complex, "
    "zero, identity, constants of 3 shapes, coefficients of 8 spaces incl. equal counts, arguments incl. equal numbers "
    "and parts, geometric quantities on 2 meshes, variables/labels, Indexed nodes with fixed/free/mixed multi-indices, "
    "~120 operators, external operators, 70 generator expressions); (2) random cases: 3 generator expressions of a "
    "common shape (scalar / tensor / free-index) plus a one-datum mutant and a rebuilt equal copy. A pair is distinct "
    "by (constructor, anonymised canons of both operands); it is non-trivial when the operands are distinguishable "
    "and the constructor did not reject them"
)
ASSUMPTIONS = [
    "distinguishable := canon_many([a,b],'anon') differ (indices and labels erased, counted terminals renumbered "
    "jointly); commutativity is asserted only for such pairs",
    "inner(a,b) for equal non-scalar shapes: Inner.__new__ promises Inner(x,y) with (x,y) in sorted order for one "
    "argument order and Conj of it for the other; nothing else is asserted about inner",
    "products are checked for scalar-valued operands only (scalar*tensor creates fresh indices, not a structural "
    "identity)",
    "cmp_expr raising on two valid operand expressions is counted as a violation of totality",
]
BUDGET = {"quick": 50, "thorough": 330}
NCASES = {"quick": 4800, "thorough": 64000}
WORKERS = {"quick": 16, "thorough": 16}
EVAL_COUNTER = "constructor_pairs"
FLOORS = {
    "quick": {
        "cmp_pairs": 110000,
        "sum_checked": 50000,
        "product_checked": 50000,
        "inner_checked": 8000,
        "inner-scalar_checked": 50000,
        "triples_transitivity": 60000000,
        "sorted_triples": 50000,
        "sorted_lists": 1000,
        "equal_copy_pairs": 3000,
        "one_datum_pairs": 5000,
        "pyscalar_pairs": 2000,
        "pool_terminal_classes": 20,
    },
    "thorough": {
        "cmp_pairs": 300000,
        "sum_checked": 200000,
        "product_checked": 200000,
        "inner_checked": 40000,
        "inner-scalar_checked": 200000,
        "triples_transitivity": 80000000,
        "sorted_triples": 500000,
        "sorted_lists": 10000,
        "equal_copy_pairs": 20000,
        "one_datum_pairs": 30000,
        "pyscalar_pairs": 2000,
        "pool_terminal_classes": 20,
    },
}
COVER_FLOORS = {
    t: {
        "terminal_classes": [
            "Argument", "Coefficient", "Constant", "IntValue", "FloatValue", "ComplexValue", "Identity",
            "SpatialCoordinate", "FacetNormal", "CellVolume", "Label", "MultiIndex", "Jacobian",
        ],
        "constructors": ["sum", "product", "inner", "inner-scalar"],
    }
    for t in ("quick", "thorough")
}


# --------------------------------------------------------------------------------------------
# small helpers


PER_KEY = 6  # the runner keeps at most 200 violations per worker: one frequent mechanism must not hide the others


def report(ctx, key, desc, detail=None):
    seen = getattr(ctx, "_c29_keys", None)
    if seen is None:
        if not hasattr(ctx, "distinct"):  # the quiet stand-in
            return
        seen = ctx._c29_keys = {}
    seen[key] = seen.get(key, 0) + 1
    ctx.count("violating_events")
    if seen[key] <= PER_KEY:
        ctx.violation(key, desc, detail)


def S(e, n=260):
    try:
        s = str(e)
    except Exception as ex:  # pragma: no cover
        s = f"<str failed {type(ex).__name__}>"
    return s if len(s) <= n else s[: n - 3] + "..."


def anon_pair(a, b):
    ca, cb = canon_many([a, b], "anon")
    return ca, cb


def diff_class(a, b):
    """Class name of the first place where a and b differ when index and label numbers are ignored
    ('none' when they do not differ that way).  Used only for naming the mechanism."""
    stack = [(a, b)]
    steps = 0
    while stack and steps < 20000:
        steps += 1
        x, y = stack.pop()
        if x is y:
            continue
        if type(x) is not type(y):
            return "node-type"
        tn = type(x).__name__
        if x._ufl_is_terminal_:
            cx, cy = canon_many([x, y], "anon")
            if cx != cy:
                return tn
            continue
        xo, yo = x.ufl_operands, y.ufl_operands
        if len(xo) != len(yo):
            return tn + "-arity"
        if tn in ("ExternalOperator", "Interpolate"):
            cx, cy = canon_many([x, y], "anon")
            if cx[2] != cy[2]:
                return tn
        for p in reversed(list(zip(xo, yo))):
            stack.append(p)
    return "none"


def mi_length_mismatch(a, b):
    """True when the parallel walk of a and b (as far as the node types agree) meets two MultiIndex
    terminals of different lengths.  Used only for naming the mechanism."""
    stack = [(a, b)]
    steps = 0
    while stack and steps < 20000:
        steps += 1
        x, y = stack.pop()
        if x is y or type(x) is not type(y):
            continue
        if isinstance(x, MultiIndex):
            if len(x) != len(y):
                return True
            continue
        stack.extend(zip(x.ufl_operands, y.ufl_operands))
    return False


def triple_cause(t, ties=()):
    if any(mi_length_mismatch(x, y) for x, y in itertools.combinations(t, 2)):
        return "multiindex-length-tie"
    if ties:
        return "ties:" + "+".join(sorted(set(ties)))
    return "other"


def sig(e):
    return (tuple(e.ufl_shape), tuple(e.ufl_free_indices), tuple(e.ufl_index_dimensions))


def classes_of(e, acc, limit=400):
    stack = [e]
    n = 0
    while stack and n < limit:
        x = stack.pop()
        n += 1
        acc.add(type(x).__name__)
        stack.extend(x.ufl_operands)


# --------------------------------------------------------------------------------------------
# rebuilding and mutating


def clone_terminal(t):
    """A new object equal to the terminal t (or t itself where the class is a fly-weight)."""
    tn = type(t).__name__
    if tn == "MultiIndex":
        return MultiIndex(tuple(FixedIndex(int(i)) if isinstance(i, FixedIndex) else Index(count=i.count()) for i in t))
    if tn == "Coefficient":
        return ufl.Coefficient(t.ufl_function_space(), count=t.count())
    if tn == "Constant":
        return ufl.Constant(t._ufl_domain, tuple(t.ufl_shape), count=t.count())
    if tn == "Argument":
        return ufl.Argument(t.ufl_function_space(), t.number(), t.part())
    if tn == "FloatValue":
        return FloatValue(t._value)
    if tn == "IntValue":
        return IntValue(t._value)
    if tn == "ComplexValue":
        return ComplexValue(t._value)
    if tn == "Zero":
        return Zero(t.ufl_shape, t.ufl_free_indices, t.ufl_index_dimensions)
    if tn == "Identity":
        return ufl.Identity(t.ufl_shape[0])
    if tn == "Label":
        return Label(count=t.count())
    if hasattr(t, "_domain") and tn not in ("Coefficient", "Argument"):
        try:
            return type(t)(t._domain)
        except Exception:
            return t
    return t


def rebuild(e):
    """Equal expression in which every node and every terminal is a new object (no sharing with e)."""
    if e._ufl_is_terminal_:
        return clone_terminal(e)
    return e._ufl_expr_reconstruct_(*[rebuild(o) for o in e.ufl_operands])


def nodes(e, path=()):
    yield path, e
    for k, o in enumerate(e.ufl_operands):
        yield from nodes(o, path + (k,))


def replace_at(e, path, new):
    if not path:
        return new
    ops = list(e.ufl_operands)
    ops[path[0]] = replace_at(ops[path[0]], path[1:], new)
    return e._ufl_expr_reconstruct_(*ops)


_GEO_SWAP = {
    "CellVolume": ufl.Circumradius,
    "Circumradius": ufl.CellVolume,
    "CellDiameter": ufl.MinCellEdgeLength,
    "MinCellEdgeLength": ufl.MaxCellEdgeLength,
    "MaxCellEdgeLength": ufl.CellDiameter,
    "FacetArea": ufl.CellVolume,
}
_MATH_SWAP = {"Sin": ufl.cos, "Cos": ufl.sin, "Sinh": ufl.cosh, "Cosh": ufl.sinh, "Exp": ufl.tanh, "Tanh": ufl.erf, "Erf": ufl.atan}


def mutate_node(parent, x, U, rng):
    """A neighbour of node x that differs in one datum (same shape and free indices), or None."""
    tn = type(x).__name__
    if tn == "FloatValue":
        v = x._value
        return FloatValue(rng.choice([float(np.nextafter(v, np.inf)), float(np.nextafter(v, -np.inf)), v + 1.0, -v]))
    if tn == "IntValue":
        v = x._value
        w = rng.choice([v + 1, v - 1, -v, v + 100])
        return IntValue(w) if w != 0 else IntValue(v + 2)
    if tn == "ComplexValue":
        v = x._value
        return ufl.as_ufl(rng.choice([v.conjugate(), complex(v.imag, v.real), v + 1]))
    if tn == "Coefficient":
        sp = x.ufl_function_space()
        r = rng.random()
        if r < 0.6:
            return ufl.Coefficient(sp, count=x.count() + rng.choice([1, 2, 10]))
        # same count, another space with the same value shape
        names = [n for n in U.spaces_with_shape(tuple(x.ufl_shape)) if U.spaces[n] is not sp and U.spaces[n] != sp]
        if names:
            return ufl.Coefficient(U.spaces[rng.choice(names)], count=x.count())
        return ufl.Coefficient(sp, count=x.count() + 1)
    if tn == "Constant":
        return ufl.Constant(x._ufl_domain, tuple(x.ufl_shape), count=x.count() + rng.choice([1, 2, 10]))
    if tn == "Argument":
        sp = x.ufl_function_space()
        if rng.random() < 0.5:
            return ufl.Argument(sp, x.number() + 1, x.part())
        names = [n for n in U.spaces_with_shape(tuple(x.ufl_shape)) if U.spaces[n] != sp]
        if names:
            return ufl.Argument(U.spaces[rng.choice(names)], x.number(), x.part())
        return ufl.Argument(sp, x.number() + 1, x.part())
    if tn in _GEO_SWAP and x.ufl_shape == ():
        return _GEO_SWAP[tn](x._domain)
    if tn in _MATH_SWAP:
        return _MATH_SWAP[tn](x.ufl_operands[0])
    if tn == "Indexed":
        A, mi = x.ufl_operands
        idx = list(mi)
        fixed = [k for k, i in enumerate(idx) if isinstance(i, FixedIndex) and A.ufl_shape[k] > 1]
        if fixed:
            k = rng.choice(fixed)
            idx[k] = FixedIndex((int(idx[k]) + 1 + rng.randrange(A.ufl_shape[k] - 1)) % A.ufl_shape[k])
            return A[tuple(idx)]
    if tn in ("PositiveRestricted", "NegativeRestricted"):
        return x.ufl_operands[0]("-" if tn == "PositiveRestricted" else "+")
    return None


def one_datum_mutant(e, U, rng, tries=6):
    """e with exactly one node replaced by a neighbour differing in one datum; None if none found."""
    ns = [(p, x) for p, x in nodes(e)]
    if len(ns) > 600:
        ns = ns[:600]
    cands = [
        (p, x)
        for p, x in ns
        if type(x).__name__
        in ("FloatValue", "IntValue", "ComplexValue", "Coefficient", "Constant", "Argument", "Indexed",
            "PositiveRestricted", "NegativeRestricted")
        or type(x).__name__ in _GEO_SWAP
        or type(x).__name__ in _MATH_SWAP
    ]
    if not cands:
        return None, None
    for _ in range(tries):
        p, x = rng.choice(cands)
        try:
            new = mutate_node(None, x, U, rng)
            if new is None:
                continue
            if sig(new) != sig(x):
                continue
            m = replace_at(e, p, new)
        except Exception:
            continue
        if sig(m) != sig(e):
            continue
        return m, type(x).__name__
    return None, None


# --------------------------------------------------------------------------------------------
# the oracle


def do_cmp(ctx, a, b, where):
    """Run the real cmp_expr both ways; judge totality / range / antisymmetry.  Returns (x, y) or None."""
    try:
        x = cmp_expr(a, b)
        y = cmp_expr(b, a)
    except Exception as ex:
        ctx.count("cmp_raised")
        report(ctx, 
            f"C29/cmp-raises/{type(ex).__name__}/{diff_class(a, b)}",
            f"cmp_expr raises {type(ex).__name__}: {ex} on a={S(a)} b={S(b)}",
            {"a": repr(a)[:1500], "b": repr(b)[:1500], "where": where},
        )
        return None
    ctx.count("cmp_pairs")
    if x not in (-1, 0, 1) or y not in (-1, 0, 1):
        report(ctx, "C29/cmp-range", f"cmp_expr returned {x!r}/{y!r} on a={S(a)} b={S(b)}")
        return None
    if x != -y:
        report(ctx, 
            f"C29/cmp-not-antisymmetric/{diff_class(a, b)}",
            f"cmp_expr(a,b)={x} but cmp_expr(b,a)={y} for a={S(a)} b={S(b)}",
            {"a": repr(a)[:1500], "b": repr(b)[:1500], "where": where},
        )
    return x, y


def cause_of(cm):
    if cm is None:
        return "cmp-raised"
    if cm == (0, 0):
        return "cmp-tie"
    if cm[0] != -cm[1]:
        return "cmp-not-antisymmetric"
    return "cmp-decided"


def _build_sum(a, b):
    return a + b


def _build_product(a, b):
    return a * b


def _build_inner(a, b):
    return ufl.inner(a, b)


def judge(ctx, kind, a, b, cm, dist, canons, tag, dpair=None):
    """Build in both orders with the real constructors and compare by canon.
    dpair: the pair whose ordering decides (differs from (a, b) for inner of scalars)."""
    da, db = dpair if dpair is not None else (a, b)
    build = {"sum": _build_sum, "product": _build_product, "inner": _build_inner, "inner-scalar": _build_inner}[kind]
    r = []
    exc = []
    for x, y in ((a, b), (b, a)):
        try:
            r.append(build(x, y))
            exc.append(None)
        except Exception as ex:
            r.append(None)
            exc.append(ex)
    ctx.count("constructor_pairs")
    if exc[0] is not None or exc[1] is not None:
        if exc[0] is not None and exc[1] is not None and type(exc[0]) is type(exc[1]):
            if cm is None:
                # the ordering itself raised; already reported by do_cmp
                ctx.count(kind + "_raised_in_ordering")
            else:
                ctx.count(kind + "_rejected_both_orders")
            return
        report(ctx, 
            f"C29/{kind}-raises-in-one-order-only/{diff_class(a, b)}",
            f"{kind}: one order raises ({exc[0]!r} / {exc[1]!r}) for a={S(a)} b={S(b)}",
            {"a": repr(a)[:1500], "b": repr(b)[:1500], "tag": tag},
        )
        return
    r1, r2 = r
    c1 = canon(r1, "abs")
    c2 = canon(r2, "abs")
    if kind == "inner":
        # what Inner.__new__ promises: one is Conj of the other (or both simplified to the same Zero)
        same = (c1 == ("Conj", (c2,), ())) or (c2 == ("Conj", (c1,), ())) or (c1 == c2 and c1[0] == "Zero")
        eq_a = bool(r1 == Conj(r2))
        eq_b = bool(r2 == Conj(r1))
    elif kind == "inner-scalar":
        # inner(a, b) = a*Conj(b): compare with the same product written the other way round
        try:
            alt = Conj(b) * a
        except Exception:
            ctx.count("inner-scalar_rejected_both_orders")
            return
        r2 = alt
        c2 = canon(alt, "abs")
        same = c1 == c2
        eq_a = bool(r1 == alt)
        eq_b = bool(alt == r1)
    else:
        same = c1 == c2
        eq_a = bool(r1 == r2)
        eq_b = bool(r2 == r1)
    if eq_a != same or eq_b != same:
        report(ctx, 
            f"C29/ufl-eq-disagrees-with-canon/{kind}/{diff_class(da, db)}",
            f"{kind}: UFL == says {eq_a}/{eq_b} but canonical serialisations {'agree' if same else 'differ'}; a={S(a)} b={S(b)}",
            {"a": repr(a)[:1500], "b": repr(b)[:1500], "r1": repr(r1)[:1500], "r2": repr(r2)[:1500], "tag": tag},
        )
    ctx.covered("constructors", kind)
    if not dist:
        ctx.count(kind + "_indistinguishable_not_asserted")
        if not same:
            ctx.count(kind + "_indistinguishable_order_dependent")
        return
    ctx.count(kind + "_checked")
    ctx.add_distinct((kind, canons))
    if tag and tag[0] == "mutant":
        ctx.count("one_datum_" + kind)
    if not same:
        report(ctx, 
            f"C29/{kind}-order-dependent/{cause_of(cm)}/{diff_class(da, db)}",
            f"{kind} of distinguishable operands depends on the order (cmp_expr both ways = {cm}): a={S(a)}  b={S(b)}  "
            f"first order -> {S(r1)}  second order -> {S(r2)}",
            {"a": repr(a)[:1500], "b": repr(b)[:1500], "r1": repr(r1)[:2000], "r2": repr(r2)[:2000], "tag": tag},
        )
    elif len(ctx.samples) < 3 and (ctx.counters.get(kind + "_checked", 0) % 97) == 1 and not (a._ufl_is_terminal_ or b._ufl_is_terminal_):
        ctx.sample({"constructor": kind, "a": S(a, 120), "b": S(b, 120), "cmp_expr(a,b),(b,a)": list(cm) if cm else None,
                    "both orders give": S(r1, 200)}, limit=3)


def pair_events(ctx, a, b, cm, tag):
    """All constructor events applicable to the pair (a, b).  cm = cmp both ways (taken before any ==)."""
    sa, sb = sig(a), sig(b)
    ca, cb = anon_pair(a, b)
    dist = ca != cb
    ctx.count("pairs_distinguishable" if dist else "pairs_indistinguishable")
    if dist and cm == (0, 0):
        ctx.count("cmp_tie_on_distinguishable_pair")
    canons = (ca, cb)
    if sa == sb:
        judge(ctx, "sum", a, b, cm, dist, canons, tag)
    if sa[0] == () and sb[0] == ():
        judge(ctx, "product", a, b, cm, dist, canons, tag)
        # inner of scalars is a * Conj(b): distinguishability of (a, Conj(b)) decides
        try:
            cb_ = Conj(b)
            d2 = anon_pair(a, cb_)
            cm2 = None
            try:
                cm2 = (cmp_expr(a, cb_), cmp_expr(cb_, a))
            except Exception:
                cm2 = None
            judge(ctx, "inner-scalar", a, b, cm2, d2[0] != d2[1], d2, tag, dpair=(a, cb_))
        except Exception:
            ctx.count("inner-scalar_rejected_both_orders")
    elif sa[0] == sb[0] and sa[0] != () and not (set(sa[1]) & set(sb[1])):
        judge(ctx, "inner", a, b, cm, dist, canons, tag)


def transitivity(ctx, items, M, rows, where):
    """<= derived from the observed cmp matrix must be transitive: le[a,b] & le[b,c] -> le[a,c]."""
    n = len(items)
    ok = np.array([[M[i][j] is not None for j in range(n)] for i in range(n)], dtype=bool)
    le = np.array([[(M[i][j] is not None and M[i][j] <= 0) for j in range(n)] for i in range(n)], dtype=bool)
    lei = le.astype(np.int32)
    reported = 0
    for a in rows:
        reach = (lei[a] @ lei) > 0  # exists b: le[a,b] & le[b,c]
        bad = reach & ~le[a] & ok[a]
        ctx.count("triples_transitivity", n * n)
        if bad.any():
            ctx.count("intransitive_pairs_a_c", int(bad.sum()))
        if bad.any() and reported <= 12:
            for c in np.nonzero(bad)[0]:
                bs = np.nonzero(le[a] & le[:, c])[0]
                b = int(bs[0])
                ties = []
                for p, q in ((a, b), (b, int(c))):
                    if M[p][q] == 0:
                        ties.append(diff_class(items[p], items[q]))
                key = "C29/cmp-not-transitive/" + triple_cause((items[a], items[b], items[int(c)]), ties)
                report(ctx, 
                    key,
                    f"cmp_expr: a<=b ({M[a][b]}), b<=c ({M[b][int(c)]}) but cmp(a,c)={M[a][int(c)]}: a={S(items[a], 150)} b={S(items[b], 150)} c={S(items[int(c)], 150)}",
                    {"a": repr(items[a])[:1200], "b": repr(items[b])[:1200], "c": repr(items[int(c)])[:1200], "where": where},
                )
                reported += 1
                if reported > 12:
                    break


def sorted_triple(ctx, t, where):
    """sorted_expr on the 6 orders of a triple with pairwise non-zero comparisons -> one sequence of objects."""
    outs = []
    for p in itertools.permutations(t):
        try:
            outs.append(tuple(id(x) for x in sorted_expr(p)))
        except Exception as ex:
            report(ctx, f"C29/sorted_expr-raises/{type(ex).__name__}", f"sorted_expr raises {ex!r} on {[S(x, 80) for x in p]}")
            return
    ctx.count("sorted_triples")
    if len(set(outs)) != 1:
        a, b, c = t
        report(ctx, 
            "C29/sorted_expr-depends-on-input-order/" + triple_cause(t),
            f"sorted_expr gives {len(set(outs))} different orders for the 6 permutations of a={S(a, 120)} b={S(b, 120)} c={S(c, 120)}",
            {"a": repr(a)[:1200], "b": repr(b)[:1200], "c": repr(c)[:1200], "where": where},
        )


def sorted_list(ctx, items, rng, where):
    """Output of sorted_expr must be ascending w.r.t. cmp_expr and, without ties, independent of the input order."""
    base = list(items)
    outs = []
    for _ in range(3):
        rng.shuffle(base)
        try:
            out = sorted_expr(list(base))
        except Exception:
            ctx.count("sorted_list_raised")
            return
        ctx.count("sorted_lists")
        try:
            asc = all(cmp_expr(out[k], out[k + 1]) <= 0 for k in range(len(out) - 1))
            allnz = all(cmp_expr(x, y) != 0 for x, y in itertools.combinations(out, 2))
        except Exception:
            ctx.count("sorted_list_raised")
            return
        if not asc:
            report(ctx, "C29/sorted_expr-not-ascending", f"sorted_expr output not ascending w.r.t. cmp_expr: {[S(x, 60) for x in out]}", {"where": where})
            return
        if allnz:
            outs.append(tuple(id(x) for x in out))
    if len(set(outs)) > 1:
        report(ctx, 
            "C29/sorted_expr-depends-on-input-order/" + triple_cause(items),
            f"sorted_expr of {len(items)} pairwise non-tied expressions depends on the input order: {[S(x, 60) for x in items]}",
            {"where": where},
        )


def equal_copy(ctx, a, where):
    """cmp_expr on an equal expression built from new objects must be 0 (before any == touches the pair)."""
    try:
        a2 = rebuild(a)
    except Exception:
        ctx.count("rebuild_failed")
        return None
    if a2 is a:
        ctx.count("rebuild_same_object")
        return None
    if canon(a2, "abs") != canon(a, "abs"):
        ctx.count("rebuild_changed_expression")
        return None
    cm = do_cmp(ctx, a, a2, where)
    ctx.count("equal_copy_pairs")
    if cm is not None and cm != (0, 0):
        report(ctx, 
            "C29/cmp-nonzero-on-equal-expressions/" + type(a).__name__ if a._ufl_is_terminal_ else "C29/cmp-nonzero-on-equal-expressions/operator",
            f"cmp_expr = {cm} on two equal expressions built from distinct objects: {S(a)}",
            {"a": repr(a)[:1500], "where": where},
        )
    return a2, cm


# --------------------------------------------------------------------------------------------
# deterministic pool


def curated(seed):
    """Deterministic pool of operands: list of (name, expr)."""
    rng = random.Random(f"C29/pool/{seed}")
    U = Universe(rng, "triangle", 2, "interior_facet", True)
    mesh = U.mesh
    mesh2 = E.mesh_for("triangle", 2)
    sp = U.spaces
    items = []

    def add(name, e):
        items.append((name, ufl.as_ufl(e)))

    # ---- literals
    for v in [2, 3, -2, 99, 100, 101, -117]:
        add(f"int{v}", v)
    for v in [0.5, float(np.nextafter(0.5, 1)), 1.5, -0.25, 2.0, 1e-300, 1e300, 10.5, 9.5, 0.125, 2.75, 3.0]:
        add(f"float{v!r}", v)
    for v in [1j, 2 - 1j, 0.5 + 0.5j, -1j]:
        add(f"complex{v!r}", v)
    add("zero", Zero())
    # ---- constants (explicit counts: 9 / 10 / 100 order differently as numbers and as text)
    cs = {k: ufl.Constant(mesh, (), count=k) for k in (9009, 9010, 90100)}
    for k, c in cs.items():
        add(f"const{k}", c)
    cv = ufl.Constant(mesh, (2,), count=9011)
    cv2 = ufl.Constant(mesh, (2,), count=9012)
    ct = ufl.Constant(mesh, (2, 2), count=9013)
    add("const2", ufl.Constant(mesh2, (), count=9014))
    # ---- coefficients
    f = ufl.Coefficient(sp["P1"], count=9107)
    g = ufl.Coefficient(sp["P1"], count=9108)
    f2 = ufl.Coefficient(sp["P2"], count=9107)  # same count as f, other space
    h = ufl.Coefficient(sp["P2"], count=9109)
    d0 = ufl.Coefficient(sp["DG0"], count=9110)
    fm2 = ufl.Coefficient(ufl.FunctionSpace(mesh2, E.catalogue("triangle", 2)["P1"]), count=9111)
    for n_, e in [("f", f), ("g", g), ("f2", f2), ("h", h), ("d0", d0), ("fm2", fm2)]:
        add(n_, e)
    v = ufl.Coefficient(sp["P1v"], count=9120)
    w = ufl.Coefficient(sp["P1v"], count=9121)
    v2 = ufl.Coefficient(sp["P2v"], count=9120)  # same count as v
    rt = ufl.Coefficient(sp["RT1"], count=9122)
    t = ufl.Coefficient(sp["P1t"], count=9130)
    s = ufl.Coefficient(sp["P1t"], count=9131)
    t2 = ufl.Coefficient(sp["P2t"], count=9130)
    mx = ufl.Coefficient(sp["MixP2P1"], count=9140)
    # ---- arguments
    tv = ufl.Argument(sp["P1"], 0)
    tu = ufl.Argument(sp["P1"], 1)
    tv2 = ufl.Argument(sp["P2"], 0)  # same number as tv, other space
    tw = ufl.Argument(sp["P1"], 2)
    tvp = ufl.Argument(sp["P1"], 0, 1)  # with a part
    tvq = ufl.Argument(sp["P1"], 0, 2)
    for n_, e in [("tv", tv), ("tu", tu), ("tv2", tv2), ("tw", tw), ("tvp", tvp), ("tvq", tvq)]:
        add(n_, e)
    av = ufl.Argument(sp["P1v"], 0)
    au = ufl.Argument(sp["P1v"], 1)
    av2 = ufl.Argument(sp["P2v"], 0)
    at = ufl.Argument(sp["P1t"], 0)
    # ---- geometric quantities
    x = ufl.SpatialCoordinate(mesh)
    x2 = ufl.SpatialCoordinate(mesh2)
    n = ufl.FacetNormal(mesh)
    J = ufl.Jacobian(mesh)
    K = ufl.JacobianInverse(mesh)
    for cls in (ufl.CellVolume, ufl.Circumradius, ufl.FacetArea, ufl.CellDiameter, ufl.MinCellEdgeLength,
                ufl.MaxFacetEdgeLength, ufl.JacobianDeterminant):
        add(cls.__name__, cls(mesh))
    add("CellVolume2", ufl.CellVolume(mesh2))
    I2 = ufl.Identity(2)
    i, j, k, l = U.idx
    # ---- fixed-index components
    for n_, e in [("v0", v[0]), ("v1", v[1]), ("w0", w[0]), ("v2_0", v2[0]), ("rt0", rt[0]), ("t01", t[0, 1]), ("t10", t[1, 0]),
                  ("t2_01", t2[0, 1]), ("s01", s[0, 1]), ("mx2", mx[2]), ("mx0", mx[0]), ("cv0", cv[0]), ("cv1", cv[1]),
                  ("ct01", ct[0, 1]), ("x0", x[0]), ("x1", x[1]), ("x2_0", x2[0]), ("n0", n[0]), ("n1", n[1]), ("J01", J[0, 1]),
                  ("K10", K[1, 0]), ("av0", av[0]), ("av2_0", av2[0]), ("au1", au[1]), ("at01", at[0, 1])]:
        add(n_, e)
    # ---- variables / labels
    var_f = ufl.variable(f)
    add("var_f", var_f)
    add("var_f_again", ufl.variable(f))
    add("var_g", ufl.variable(g))
    add("var_sin", ufl.variable(ufl.sin(f)))
    add("dvar", ufl.diff(ufl.sin(var_f) * var_f, var_f))
    # ---- scalar operators
    ops = [
        ufl.sin(f), ufl.cos(f), ufl.sin(g), ufl.sin(f2), ufl.exp(f), ufl.ln(f), ufl.sqrt(f), ufl.tan(f), ufl.erf(f), ufl.tanh(g),
        f * g, f * f2, f + g, f + f2, f - g, g - f, -f, -g, f / g, g / f, f / 2, f**2, f**3, f**g, g**f, 2**f, abs(f), abs(g),
        ufl.sign(f), ufl.conditional(ufl.lt(f, g), f, g), ufl.conditional(ufl.gt(f, g), f, g), ufl.conditional(ufl.lt(g, f), f, g),
        ufl.conditional(ufl.And(ufl.lt(f, g), ufl.gt(h, 0.5)), f, h), ufl.conditional(ufl.Or(ufl.lt(f, g), ufl.gt(h, 0.5)), f, h),
        ufl.conditional(ufl.Not(ufl.lt(f, g)), f, h), ufl.conditional(ufl.eq(f, g), f, h), ufl.conditional(ufl.ne(f, g), f, h),
        ufl.max_value(f, g), ufl.min_value(f, g), ufl.max_value(g, f), f.dx(0), f.dx(1), g.dx(0), ufl.grad(f)[0], ufl.grad(f)[1],
        ufl.div(v), ufl.div(w), ufl.nabla_div(v), ufl.inner(v, w), ufl.inner(w, v), ufl.inner(v, v), ufl.dot(v, w), ufl.dot(w, v),
        ufl.inner(t, s), ufl.inner(s, t), ufl.det(t), ufl.det(s), ufl.tr(t), ufl.tr(s), v[i] * w[i], w[i] * v[i], t[i, i], t[i, j] * s[i, j],
        t[i, j] * s[j, i], t[i, j] * v[i] * w[j], f("+"), f("-"), g("+"), ufl.avg(f), ufl.jump(f), ufl.conj(f), ufl.real(f), ufl.imag(f),
        ufl.conj(g), ufl.bessel_J(1, f), ufl.bessel_J(2, f), ufl.bessel_Y(1, f), ufl.bessel_I(1, f), ufl.bessel_K(1, f), ufl.atan2(f, g),
        ufl.atan2(g, f), ufl.cell_avg(f), ufl.facet_avg(f), ufl.curl(v), ufl.rot(w), 2 * f, 3 * f, 0.5 * f, 1j * f, f * tv, f * tu,
        ufl.inner(av, v), ufl.inner(v, av), ufl.inner(ufl.grad(tv), ufl.grad(tu)), ufl.inner(ufl.grad(tu), ufl.grad(tv)),
        ufl.dot(ufl.grad(f), n), ufl.dot(n("+"), v("+")), ufl.dot(n("-"), v("-")), ufl.sqrt(ufl.inner(v, v)), ufl.exp(-f), (f + g) * h,
        f * h + g * h, (f + g) + h, f + (g + h), (f * g) * h, f * (g * h), ufl.Dx(v[0], 1), ufl.div(t)[0], ufl.grad(v)[0, 1], ufl.grad(v)[1, 0],
        ufl.grad(ufl.grad(f))[0, 1], ufl.dot(t, v)[0], (t * v)[1], (t * s)[0, 1], ufl.outer(v, w)[0, 1], ufl.transpose(t)[0, 1], ufl.sym(t)[0, 1],
        ufl.inv(t)[0, 0], ufl.cofac(t)[1, 0], ufl.dev(t)[0, 0], ufl.skew(t)[0, 1], ufl.perp(v)[0], ufl.elem_mult(v, w)[0], ufl.cross(ufl.as_vector([f, g, h]), ufl.as_vector([g, h, f]))[0],
        ufl.as_vector([f, g])[i] * v[i], ufl.as_vector([g, f])[i] * v[i], ufl.as_tensor(t[i, j], (j, i))[0, 1],
    ]
    # literals whose printed forms differ only in zeros after the point (a "natural" comparison of digit runs reads 05 as 5)
    for lit_a, lit_b in [(0.5, 0.05), (1.5, 1.05), (2.1, 2.01), (0.25, 0.025), (0.001, 0.0001), (-0.5, -0.05), (10.5, 10.05), (1.5 + 0.5j, 1.5 + 0.05j)]:
        ops += [lit_a * f, lit_b * f, f + lit_a, f + lit_b, ufl.sin(lit_a * g), ufl.sin(lit_b * g)]
    # operators with a varying number of operands: one operand list a strict prefix of the other
    l2, l3, l4 = ufl.as_vector([f, g]), ufl.as_vector([f, g, h]), ufl.as_vector([f, g, h, f])
    m2, m3 = ufl.as_tensor([v, w]), ufl.as_tensor([v, w, v2])
    ops += [ufl.inner(l2, l2), ufl.inner(l3, l3), ufl.inner(l4, l4), ufl.sqrt(ufl.dot(l2, l2)), ufl.sqrt(ufl.dot(l3, l3)), ufl.exp(l2[i] * l2[i]),
            ufl.exp(l3[i] * l3[i]), ufl.inner(m2, m2), ufl.inner(m3, m3), ufl.tr(ufl.outer(l2, l2)), ufl.tr(ufl.outer(l3, l3)),
            ufl.tr(ufl.outer(l4, l4))]
    for q, e in enumerate(ops):
        add(f"op{q}", e)
    # ---- base form operators (data outside ufl_operands)
    try:
        add("extop_P1", ExternalOperator(f, function_space=sp["P1"]))
        add("extop_P2", ExternalOperator(f, function_space=sp["P2"]))
        add("extop_P1_d1", ExternalOperator(f, function_space=sp["P1"], derivatives=(1,)))
        add("extop_P1_g", ExternalOperator(g, function_space=sp["P1"]))
        # (Interpolate is left out: vf.canon cannot serialise it, its `derivatives` is None)
    except Exception:
        pass
    # ---- vectors
    vecs = [v, w, v2, rt, x, x2, n, cv, cv2, av, au, av2, ufl.grad(f), ufl.grad(g), ufl.as_vector([f, g]), ufl.as_vector([g, f]),
            ufl.as_vector([f, 2]), 2 * v, f * v, v * f, v + w, v - w, -v, ufl.dot(t, v), t * w, t[0, :], t[:, 0], t[1, :], ufl.curl(f),
            ufl.as_vector(v[i] * f, i), ufl.as_vector(t[i, j] * v[j], i), ufl.as_vector(t[j, i] * v[j], i), v("+"), v("-"),
            ufl.conditional(ufl.lt(f, g), v, w), ufl.perp(v), ufl.perp(w), ufl.elem_mult(v, w), ufl.elem_mult(w, v), ufl.div(t), ufl.conj(v),
            ufl.variable(v), Zero((2,)), ufl.grad(tv), ufl.as_vector([mx[0], mx[1]]), v / f, ufl.dot(v, t), ufl.diag_vector(t), n("+"), ufl.avg(v)]
    for q, e in enumerate(vecs):
        add(f"vec{q}", e)
    # ---- matrices
    mats = [t, s, t2, at, I2, ct, J, K, ufl.grad(v), ufl.grad(w), ufl.grad(av), ufl.nabla_grad(v), ufl.outer(v, w), ufl.outer(w, v),
            ufl.outer(v, v), t.T, s.T, ufl.sym(t), ufl.skew(t), ufl.dev(t), ufl.inv(t), ufl.cofac(t), t * s, s * t, ufl.dot(t, s), t + s, t - s,
            2 * t, f * t, -t, ufl.as_matrix([[f, g], [g, f]]), ufl.as_matrix([[f, g], [h, f]]), ufl.as_tensor(t[i, j], (j, i)),
            ufl.as_tensor(t[i, k] * s[k, j], (i, j)), ufl.as_tensor(v[i] * w[j], (i, j)), ufl.as_tensor(v[j] * w[i], (i, j)),
            ufl.as_tensor([t[0, :], s[1, :]]), ufl.grad(ufl.grad(f)), t("+"), ufl.conj(t), ufl.variable(t), ufl.elem_mult(t, s), ufl.diag(t), ufl.diag(v),
            ufl.conditional(ufl.lt(f, g), t, s), Zero((2, 2))]
    for q, e in enumerate(mats):
        add(f"mat{q}", e)
    # ---- free-index operands (multi-index bearing Indexed nodes and friends)
    fidx = [v[i], w[i], v2[i], x[i], n[i], cv[i], av[i], ufl.grad(f)[i], t[i, 0], t[0, i], t[1, i], s[i, 0], v[i] * f, f * w[i], t[i, j] * v[j],
            t[j, i] * v[j], I2[i, 0], (v + w)[i], v[i] + w[i], abs(v[i]), v[i] / f, ufl.conj(v[i]), v[i]("+"), ufl.grad(v)[i, 0],
            v[j], w[j], t[j, 0], t[0, j], v[k],
            t[i, j], t[j, i], s[i, j], s[j, i], t2[i, j], v[i] * w[j], w[i] * v[j], v[j] * w[i], I2[i, j], ufl.grad(v)[i, j], ufl.grad(v)[j, i],
            at[i, j], ct[i, j], t[i, j] + s[i, j], t[i, j] + s[j, i], t[i, j] * f, ufl.outer(v, w)[i, j], J[i, j], K[j, i], (t * s)[i, j],
            t[i, k] * s[k, j], t[i, k], t[k, j], ufl.as_tensor(t[i, j], (j, i))[i, j], Zero((), (i.count(),), (2,)), v[i].dx(j), v[i].dx(0),
            t[i, j].dx(j)]
    for q, e in enumerate(fidx):
        add(f"fi{q}", e)
    # ---- operators of all kinds from the generator, on the same universe (shared terminals, shared index pool)
    G = Gen(U, rng, cplx=True, deriv=2)
    Gr = Gen(U, rng, cplx=False, deriv=1, restrict=False)
    for q in range(40):
        add(f"gen_s{q}", (G if q % 2 else Gr).expr((), 1 + q % 3))
    for q in range(16):
        add(f"gen_v{q}", (G if q % 2 else Gr).expr((2,), 1 + q % 3))
    for q in range(14):
        add(f"gen_m{q}", (G if q % 2 else Gr).expr((2, 2), 1 + q % 2))
    return U, items


def once(ctx):
    U, named = curated(0)  # the pool itself does not depend on the run seed: same matrix in every worker
    items = [e for _, e in named]
    names = [n_ for n_, _ in named]
    n = len(items)
    mine = [a for a in range(n) if a % ctx.nsub == ctx.sub]
    tcls = set()
    for e in items:
        classes_of(e, tcls)
    for c in sorted(tcls):
        ctx.covered("node_classes", c)
    seen_term = set()
    for e in items:
        for _, x in itertools.islice(nodes(e), 500):
            if x._ufl_is_terminal_:
                seen_term.add(type(x).__name__)
    for c in seen_term:
        ctx.covered("terminal_classes", c)
    ctx.count("pool_terminal_classes", len(seen_term) if ctx.sub == 0 else 0)
    ctx.count("pool_size", n if ctx.sub == 0 else 0)

    # ---- the complete comparison matrix (every worker needs all of it for the triples; the calls
    # are judged and counted only for the worker's own rows).  Taken before any == touches the pool.
    class _Quiet:
        """Stand-in ctx for rows owned by other workers: nothing is recorded twice."""

        counters = {}

        def count(self, *a, **k):
            pass

        def violation(self, *a, **k):
            pass

    quiet = _Quiet()
    M = [[None] * n for _ in range(n)]
    for a in range(n):
        c = ctx if a % ctx.nsub == ctx.sub else quiet
        for b in range(n):
            if b < a:
                continue
            if a == b:
                try:
                    r = cmp_expr(items[a], items[a])
                except Exception as ex:
                    r = None
                    report(c, f"C29/cmp-raises/{type(ex).__name__}/self", f"cmp_expr(a, a) raises {ex!r} for {S(items[a])}")
                M[a][a] = r
                c.count("cmp_reflexive")
                if r not in (0, None):
                    report(c, "C29/cmp-not-reflexive", f"cmp_expr(a, a) = {r} for a={S(items[a])}")
                continue
            cm = do_cmp(c, items[a], items[b], f"pool {names[a]} / {names[b]}")
            if cm is not None:
                M[a][b], M[b][a] = cm
    # ---- transitivity over all triples that start in one of my rows
    transitivity(ctx, items, M, mine, "pool")
    # ---- equal but distinct copies
    copies = {}
    for a in mine:
        r = equal_copy(ctx, items[a], f"pool {names[a]}")
        if r is not None:
            copies[a] = r
    # ---- sorted_expr on triples (all 6 orders), sampled deterministically from my rows
    rng = random.Random(f"C29/once-triples/{ctx.sub}")
    want = 3000 if ctx.tier == "quick" else 30000
    tries = 0
    done = 0
    while done < want and tries < want * 6 and mine:
        tries += 1
        a = rng.choice(mine)
        b, c = rng.randrange(n), rng.randrange(n)
        if len({a, b, c}) < 3:
            continue
        if not (M[a][b] and M[a][c] and M[b][c]):
            ctx.count("sorted_triples_skipped_tie")
            continue
        sorted_triple(ctx, (items[a], items[b], items[c]), "pool")
        done += 1
    for _ in range(20 if ctx.tier == "quick" else 200):
        sub = rng.sample(items, rng.choice([4, 6, 9, 15]))
        sorted_list(ctx, sub, rng, "pool")
    # ---- python scalars as one operand (__radd__ / __rmul__ paths)
    for a in mine:
        e = items[a]
        if e.ufl_shape != ():
            continue
        for pv in (2, 0.5, 1j, 1, 0):
            for kind, fn in (("sum", lambda p, q: p + q), ("product", lambda p, q: p * q)):
                if kind == "sum" and e.ufl_free_indices:
                    continue
                try:
                    r1, r2 = fn(pv, e), fn(e, pv)
                except Exception:
                    ctx.count("pyscalar_rejected")
                    continue
                ctx.count("pyscalar_pairs")
                if canon(r1, "abs") != canon(r2, "abs") or not (r1 == r2):
                    report(ctx, 
                        f"C29/{kind}-order-dependent/python-scalar",
                        f"{pv!r} {'+' if kind == 'sum' else '*'} e differs from e {'+' if kind == 'sum' else '*'} {pv!r} for e={S(e)}: {S(r1)} vs {S(r2)}",
                    )
    # ---- constructors on all compatible ordered-independent pairs {a, b}, a in my rows
    for a in mine:
        for b in range(n):
            if b == a:
                continue
            if b < a and (b % ctx.nsub == ctx.sub):
                continue  # the unordered pair is handled from row b
            if ctx.time_left() < 5:
                ctx.count("pool_pairs_not_reached_time_budget")
                continue
            cm = (M[a][b], M[b][a]) if M[a][b] is not None and M[b][a] is not None else None
            pair_events(ctx, items[a], items[b], cm, ("pool", names[a], names[b]))
        if a in copies:
            pair_events(ctx, items[a], copies[a][0], copies[a][1], ("copy", names[a]))


# --------------------------------------------------------------------------------------------
# random cases

CELLS = [("interval", 1), ("interval", 2), ("triangle", 2), ("triangle", 3), ("tetrahedron", 3)]


def draw_operands(U, G, rng):
    """Three operands with one common (shape, free indices) signature."""
    r = rng.random()
    depth = rng.choice([0, 1, 1, 2, 2, 3])
    if r < 0.55:
        return "scalar", [G.expr((), rng.choice([depth, max(depth - 1, 0), depth])) for _ in range(3)]
    g = U.gdim
    if r < 0.8:
        sh = rng.choice([(2,), (3,), (g,), (2, 2), (g, g), (2, 3), (3, 3)])
        return "tensor", [G.expr(sh, rng.choice([depth, max(depth - 1, 0)])) for _ in range(3)]
    # free-index operands
    sh = rng.choice([(2,), (3,), (2, 2), (3, 3), (2, 3), (2, 2, 2)])
    A = [G.expr(sh, min(depth, 2)) for _ in range(3)]
    pool = list(U.idx)
    rng.shuffle(pool)
    ix = []
    for k_, d in enumerate(sh):
        ix.append(pool[k_] if rng.random() < 0.75 else rng.randrange(d))
    if not any(isinstance(q, Index) for q in ix):
        ix[0] = pool[0]
    ix = tuple(ix)
    out = [A[0][ix], A[1][ix]]
    # third operand: same free indices, possibly in another position order
    free = [q for q in ix if isinstance(q, Index)]
    if len(free) == 2 and len(set(sh)) == 1 and rng.random() < 0.6:
        sw = {free[0]: free[1], free[1]: free[0]}
        ix2 = tuple(sw.get(q, q) if isinstance(q, Index) else q for q in ix)
        out.append(A[2][ix2])
    else:
        out.append(A[2][ix])
    if rng.random() < 0.4:
        out[1] = out[1] * G.expr((), 1)
    return "free-index", out


def case(ctx, i, rng):
    cell, gdim = rng.choice(CELLS)
    itype = rng.choice(["cell", "cell", "exterior_facet", "interior_facet"])
    cplx = rng.random() < 0.4
    U = Universe(rng, cell, gdim, itype, cplx)
    G = Gen(U, rng, cplx=cplx, deriv=rng.choice([0, 1, 2]))
    try:
        kind, ops = draw_operands(U, G, rng)
    except Exception:
        ctx.count("generator_rejected_case")
        return
    ctx.count("cases_" + kind)
    a, b, c = ops
    if kind == "scalar" and rng.random() < 0.25:
        # operands linear in test/trial functions (arguments of equal and of different numbers)
        names = U.spaces_with_shape(())
        try:
            v0 = U.arg(rng.choice(names), 0)
            v1 = U.arg(rng.choice(names), rng.choice([0, 1]))
            if U.interior:
                v0, v1 = v0(rng.choice("+-")), v1(rng.choice("+-"))
            a, b, c = a * v0, b * v1, c * v0
            ctx.count("cases_with_arguments")
        except Exception:
            a, b, c = ops
    lst = [a, b, c]
    tags = [("gen", kind)] * 3
    # one-datum mutants of a and of b
    src = {}
    for k_, e_ in enumerate((a, b)):
        m, what = one_datum_mutant(e_, U, rng)
        if m is not None:
            src[len(lst)] = k_
            lst.append(m)
            tags.append(("mutant", what))
            ctx.count("mutants_built")
            ctx.covered("mutated_datum", what)
    # operands sharing a large common part
    if kind == "scalar" and rng.random() < 0.5:
        try:
            lst.append(a * c if rng.random() < 0.5 else a + c)
            tags.append(("gen", "composite"))
        except Exception:
            pass
    n = len(lst)
    acc = set()
    for e in lst[:3]:
        classes_of(e, acc)
    for cn in acc:
        ctx.covered("node_classes", cn)
    # ---- comparisons first (== has side effects on operands: it shares ufl_operands of equal nodes)
    M = [[None] * n for _ in range(n)]
    for p in range(n):
        try:
            M[p][p] = cmp_expr(lst[p], lst[p])
        except Exception:
            M[p][p] = None
        ctx.count("cmp_reflexive")
        if M[p][p] not in (0, None):
            report(ctx, "C29/cmp-not-reflexive", f"cmp_expr(a, a) = {M[p][p]} for a={S(lst[p])}")
        for q in range(p + 1, n):
            cm = do_cmp(ctx, lst[p], lst[q], "case")
            if cm is not None:
                M[p][q], M[q][p] = cm
    transitivity(ctx, lst, M, range(n), "case")
    # equal-but-distinct copy of a
    cp = equal_copy(ctx, a, "case")
    # sorted_expr
    for tr in itertools.combinations(range(n), 3):
        p, q, r = tr
        if M[p][q] and M[p][r] and M[q][r]:
            sorted_triple(ctx, (lst[p], lst[q], lst[r]), "case")
        else:
            ctx.count("sorted_triples_skipped_tie")
    if i % 4 == 0:
        sorted_list(ctx, lst, rng, "case")
    # ---- constructors
    for p in range(n):
        for q in range(p + 1, n):
            if p >= 3 and q >= 3 and tags[p][0] == "mutant" and tags[q][0] == "mutant":
                continue
            cm = (M[p][q], M[q][p]) if M[p][q] is not None and M[q][p] is not None else None
            tag = tags[q] if tags[q][0] == "mutant" else tags[p]
            if src.get(q) == p:
                ctx.count("one_datum_pairs")
            pair_events(ctx, lst[p], lst[q], cm, tag)
    if cp is not None:
        pair_events(ctx, a, cp[0], cp[1], ("copy", kind))
    if i % 251 == 0:
        ctx.sample({"random case": i, "kind": kind, "a": S(a, 140), "b": S(b, 140), "cmp(a,b)": M[0][1], "tree sizes of the operand list": [tree_size(e) for e in lst]}, limit=5)
