"""C08 - function pullbacks implement each element's declared push-forward.

Events: apply_function_pullbacks(expr) where expr is a form argument (or an expression around form
arguments) on every pullback kind, nested mixed / symmetric compositions, row-wise tensor-valued
Piola elements, on affine cells including immersed manifolds with both orientations.
Oracle: the output only sees ReferenceValue(f) = F, J, K, detJ; its value must equal the
interpreter's own statement of the push-forward of F (textbook formulas in vf/seval.py, written
independently of ufl/pullback.py), and its shape must be the physical value shape implied by the
element composition.
"""

import numpy as np

import ufl
from ufl.algorithms.apply_function_pullbacks import apply_function_pullbacks

from .. import elements as E
from .. import oracle
from ..gen import Gen, Universe
from ..passcheck import check_pass, node_classes, skeleton

LEVEL = "exploration"
ENGINE = "seval"
TECHNIQUE = "differential runtime monitoring of apply_function_pullbacks against independent push-forward formulas on random affine cells"
LEVEL_TEXT = (
    "The real apply_function_pullbacks is run on form arguments of generated element compositions (all seven pullback "
    "kinds, mixed and symmetric nesting two deep, row-wise tensor Piola) on random affine cells incl. immersed manifolds of "
    "both orientations; the value of the output (reference value + Jacobian data) is compared with an independent "
    "push-forward of the same reference polynomial at random points, 50-digit confirmation before any report."
)
LEVEL_NOTE = "trusted: push-forward formulas in vf/seval.py (_pushforward), numpy, mpmath; affine simplex cells only"
RULE = (
    "case i = (random element composition, cell, gdim, orientation, argument kind, optional surrounding expression); distinct = "
    "(repr of element, cell, gdim, kind of wrapper); non-trivial = at least one non-identity or mixed/symmetric leaf"
)
ASSUMPTIONS = [
    "on manifolds detJ carries the cell orientation (documented convention)",
    "mixed = concatenation of flattened sub-element values; symmetric = table lookup of sub-elements",
]
BUDGET = {"quick": 40, "thorough": 400}
NCASES = {"quick": 3000, "thorough": 60000}
FLOORS = {'quick': {'case_held': 1200}, 'thorough': {'case_held': 10000, 'suite:apply_function_pullbacks:held': 2}}
COVER_FLOORS = {
    "quick": {"pullback_kinds": ["identity", "contravariant", "covariant", "l2", "dcontra", "dcov", "covcontra", "mixed", "symmetric"]},
    "thorough": {"pullback_kinds": ["identity", "contravariant", "covariant", "l2", "dcontra", "dcov", "covcontra", "mixed", "symmetric"]},
}
CELLS = [("interval", 1), ("interval", 2), ("interval", 3), ("triangle", 2), ("triangle", 3), ("tetrahedron", 3)]


def random_leaf(rng, cell, gdim):
    t = E.TD[cell]
    k = rng.choice(["P", "Pv", "Pt", "DG", "RT", "N1", "L2P", "Regge", "HHJ", "GLS", "RTrows", "N1rows"])
    d = rng.choice([1, 2, 3])
    if k == "P":
        return E.P(cell, d)
    if k == "Pv":
        return E.P(cell, d, (rng.choice([2, 3, gdim]),))
    if k == "Pt":
        return E.P(cell, d, (rng.choice([2, gdim]), rng.choice([2, gdim])))
    if k == "DG":
        return E.DG(cell, rng.choice([0, 1, 2]), rng.choice([(), (2,)]))
    if k == "RT":
        return E.RT(cell, d)
    if k == "N1":
        return E.N1(cell, d)
    if k == "L2P":
        return E.L2P(cell, d)
    if k == "Regge":
        return E.Regge(cell, rng.choice([0, 1, 2]))
    if k == "HHJ":
        return E.HHJ(cell, rng.choice([0, 1, 2]))
    if k == "GLS":
        return E.GLS(cell, d)
    if k == "RTrows":
        return E.RTrows(cell, d, rng.choice([2, 3]))
    return E.N1rows(cell, d, rng.choice([2, 3]))


def random_element(rng, cell, gdim, depth):
    r = rng.random()
    if depth == 0 or r < 0.45:
        return random_leaf(rng, cell, gdim)
    if r < 0.85:
        n = rng.choice([2, 2, 3])
        return E.VMixed([random_element(rng, cell, gdim, depth - 1) for _ in range(n)])
    # symmetric: sub-elements must share a reference value shape
    n = rng.choice([2, 3])
    kind = rng.choice(["P", "RT", "N1", "L2P"])
    symmetry = {}
    subs = []
    k = 0
    for i in range(n):
        for j in range(i, n):
            symmetry[(i, j)] = k
            symmetry[(j, i)] = k
            dg = rng.choice([1, 2, 3])
            subs.append({"P": E.P, "RT": E.RT, "N1": E.N1, "L2P": E.L2P}[kind](cell, dg))
            k += 1
    if rng.random() < 0.3:
        # non-symmetric table: every component its own sub-element except one shared pair
        symmetry = {}
        subs = []
        k = 0
        for i in range(n):
            for j in range(n):
                if (j, i) in symmetry and rng.random() < 0.5:
                    symmetry[(i, j)] = symmetry[(j, i)]
                else:
                    symmetry[(i, j)] = k
                    subs.append({"P": E.P, "RT": E.RT, "N1": E.N1, "L2P": E.L2P}[kind](cell, rng.choice([1, 2])))
                    k += 1
    return E.VSymmetric(symmetry, subs)


def kinds_in(e):
    out = {e.vf_kind}
    for s in e.sub_elements:
        out |= kinds_in(s)
    return out


def meshseq_case(ctx, rng):
    """A mixed space over a MeshSequence: sub-function i lives on mesh i and is pushed forward with the cell map of mesh i.
    Each mesh has a world of its own (same reference point); sub-elements may be EQUAL (the same Piola element on two
    subdomains).  Expected value: the interpreter's reference value of f, sliced per sub-element, mapped with the textbook
    formula and the Jacobian of that sub-element's mesh, in numpy."""
    from ufl.cell import CellSequence
    from ..seval import CB

    cell, gdim = rng.choice([("triangle", 2), ("triangle", 2), ("tetrahedron", 3), ("interval", 1)])
    n = rng.choice([2, 2, 3])
    menu = [lambda: E.P(cell, rng.choice([1, 2])), lambda: E.RT(cell, rng.choice([1, 2])), lambda: E.N1(cell, rng.choice([1, 2])), lambda: E.L2P(cell, 1)]
    subs = [rng.choice(menu)() for _ in range(n)]
    if rng.random() < 0.6:
        subs[rng.randrange(1, n)] = subs[0]  # the same element on two meshes
    try:
        meshes = [E.mesh_for(cell, gdim) for _ in range(n)]
        mixed = E.VMixed(subs)
        mixed._cell = CellSequence(tuple(s_.cell for s_ in subs))
        W = ufl.FunctionSpace(ufl.MeshSequence(meshes), mixed)
        f = ufl.Coefficient(W)
        out = apply_function_pullbacks(f)
    except Exception as ex:
        ctx.count("meshseq_rejected")
        ctx.covered("rejected_with", "mesh-sequence: " + type(ex).__name__ + ": " + str(ex)[:50])
        return
    ctx.count("meshseq_cases")
    agree = 0
    for _ in range(3):
        ws = [oracle.World(rng, cell, gdim, "cell", False) for _ in range(n)]
        w = ws[0]
        for k in range(1, n):
            ws[k].sides["+"].X = w.sides["+"].X.copy()
        w.mesh = meshes[0]
        w.others = {meshes[k]: ws[k] for k in range(1, n)}
        try:
            got = np.asarray(oracle.S(out, w, strict=False).arr, dtype=complex).ravel()
            ref = np.asarray(oracle.S(ufl.classes.ReferenceValue(f), w, strict=False).arr, dtype=complex).ravel()
        except (oracle.Unsupported, oracle.Ambiguous, oracle.StructureMismatch) as ex:
            ctx.count("meshseq_skipped")
            ctx.covered("inconclusive_reasons", "mesh-sequence:" + type(ex).__name__ + ":" + str(ex)[:40])
            continue
        exp = []
        off = 0
        for k, s_ in enumerate(subs):
            m_ = s_.reference_value_size
            Fk = ref[off: off + m_]
            off += m_
            g_ = ws[k].sides["+"].geo(CB)
            Jm, K, dJ = (np.asarray(g_(q), dtype=complex) for q in ("Jacobian", "JacobianInverse", "JacobianDeterminant"))
            kind = s_.vf_kind
            exp.append(Fk if kind == "identity" else Jm @ Fk / dJ if kind == "contravariant" else K.T @ Fk if kind == "covariant" else Fk / dJ)
        exp = np.concatenate([np.atleast_1d(v) for v in exp])
        if got.shape != exp.shape:
            ctx.violation("C08/mesh-sequence/shape", f"pulled-back value has {got.shape[0]} components, the sub-elements imply {exp.shape[0]}", {"element": repr(mixed)[:300]})
            return
        err = float(np.max(np.abs(got - exp))) / max(1.0, float(np.max(np.abs(exp))))
        if err > 1e-9:
            eq = len({repr(s_) for s_ in subs}) < n
            ctx.violation("C08/mesh-sequence/value" + ("/equal-sub-elements" if eq else ""),
                          f"a sub-function of a mixed space over a MeshSequence is not pushed forward with the cell map of its own mesh (rel. err {err:.3g})",
                          {"sub_elements": [repr(s_)[:80] for s_ in subs], "output": str(out)[:900]})
            return
        agree += 1
    if agree >= 2:
        ctx.count("meshseq_held")
        ctx.add_distinct(("mesh-sequence", tuple(s_.vf_kind for s_ in subs), cell, len({repr(s_) for s_ in subs}) < n))


def case(ctx, i, rng):
    if rng.random() < 0.05:
        return meshseq_case(ctx, rng)
    cell, gdim = rng.choice(CELLS)
    cplx = rng.random() < 0.3
    el = random_element(rng, cell, gdim, rng.choice([0, 1, 1, 2]))
    mesh = E.mesh_for(cell, gdim)
    if rng.random() < 0.25:
        # history: the very same element object was used before on a mesh of the same cell type with another geometric
        # dimension (the physical value shape of Piola-mapped components depends on the mesh, not only on the element)
        others = [g_ for (c_, g_) in CELLS if c_ == cell and g_ != gdim]
        if others:
            try:
                V0 = ufl.FunctionSpace(E.mesh_for(cell, rng.choice(others)), el)
                f0 = ufl.Coefficient(V0)
                _ = f0.ufl_shape, V0.value_shape
                apply_function_pullbacks(f0)
                ctx.count("element_used_before_on_another_mesh")
            except Exception:
                ctx.count("prior_use_rejected")
    try:
        V = ufl.FunctionSpace(mesh, el)
        kind = rng.choice(["coefficient", "coefficient", "argument"])
        f = ufl.Coefficient(V) if kind == "coefficient" else ufl.Argument(V, rng.choice([0, 1]))
        _ = f.ufl_shape
    except Exception as ex:
        ctx.count("build_rejected")
        ctx.covered("build_rejected_with", type(ex).__name__)
        return
    for k in kinds_in(el):
        ctx.covered("pullback_kinds", k)
    wrapper = rng.choice(["bare", "bare", "component", "expr"])
    e = f
    try:
        if wrapper == "component" and f.ufl_shape:
            e = f[tuple(rng.randrange(d) for d in f.ufl_shape)] * 2.0 + 1.0
        elif wrapper == "expr":
            g = ufl.Coefficient(V)
            e = ufl.inner(f, g) + (f[tuple(rng.randrange(d) for d in f.ufl_shape)] if f.ufl_shape else f) ** 2
    except Exception:
        e = f
        wrapper = "bare"
    itype = rng.choice(["cell", "cell", "exterior_facet"])
    worlds = oracle.worlds_for(rng, cell, gdim, itype, cplx, n=3)
    # the declared shape of the form argument is the physical value shape implied by the element composition ON THIS MESH
    try:
        oracle.S(f, worlds[0])
        ctx.count("declared_shape_checks")
    except oracle.StructureMismatch as ex:
        if "form argument value shape" in str(ex):
            ctx.violation(f"C08/declared-value-shape/{el.vf_kind}" + ("/manifold" if gdim > E.TD[cell] else ""),
                          f"the form argument declares the shape {tuple(f.ufl_shape)} (function space value_shape {tuple(V.value_shape)}), the element "
                          f"composition on this {cell} mesh in {gdim}D implies another: {ex}", {"element": repr(el)[:400]})
            return
    except Exception:
        pass
    verdict, out = check_pass(ctx, "C08", "apply_function_pullbacks", e, apply_function_pullbacks, worlds, localise=False,
                              key_override=el.vf_kind)
    if verdict == "held":
        if kinds_in(el) != {"identity"}:
            ctx.add_distinct((repr(el), cell, gdim, wrapper))
        ctx.sample({"element": repr(el)[:300], "cell": [cell, gdim], "value_shape": list(f.ufl_shape), "wrapper": wrapper})
        cls = node_classes(out)
        if "Coefficient" in cls or "Argument" in cls:
            # every form argument must be wrapped in ReferenceValue afterwards
            if not _all_wrapped(out):
                ctx.violation("C08/apply_function_pullbacks/form-argument-left-unwrapped", "a form argument outside ReferenceValue survives", {"out": str(out)[:400]})


def _all_wrapped(e, under=False):
    n = type(e).__name__
    if n in ("Coefficient", "Argument"):
        return under
    return all(_all_wrapped(c, n == "ReferenceValue") for c in e.ufl_operands)


# ---- additional workload (thorough tier): the repository's own test-suite with this property's passes monitored
EXTRA_JOBS = {"thorough": ["suite"]}
SUITE_TARGETS = ['apply_function_pullbacks']


def extra_suite(ctx):
    """Every call the repository's tests make to the monitored passes is judged by the same value oracle (vf/suitemon.py)."""
    from ..suite_driver import run_suite

    run_suite(ctx, SUITE_TARGETS, "C08")
