"""C20 - type dispatch stays valid when new expression types are registered later.

Events: every application (a `U` step) of a UFL algorithm class / public algorithm function inside a
*history* that interleaves late `@ufl_type` registrations (`R`), instantiations of algorithm classes (`I`)
and applications to old-type and late-type expressions.  Every history runs in a fresh subprocess
(`vf/c20_driver.py`), because a registration mutates global class tables.

Oracle (differential, two processes per history):
  (a) the outcome of each step (canon of the result, or exception class + "raised by a typecode-indexed
      table lookup") must equal the outcome of the same step in the *type-first* history: the same steps
      with all registrations moved to the front;
  (b) in the type-first history itself an application to a late type must not die in the lookup of a
      typecode-indexed table (IndexError / KeyError raised by `table[o._ufl_typecode_]`): the type is
      registered, so the algorithm has to reach some handler (a handler that refuses with ValueError is
      a handler);
  (c) the set of algorithm methods that received the late-type instance (observed with sys.setprofile)
      must be the same in both histories.
"""

import json
import os
import subprocess
import sys

from vf import VERIF_DIR

LEVEL = "exploration"
ENGINE = "procs"
TECHNIQUE = (
    "differential multi-process histories: each interleaving of late @ufl_type registrations and algorithm "
    "uses is executed in a fresh process and compared step by step with the type-first process"
)
LEVEL_TEXT = (
    "Every MultiFunction / Transformer / DAGTraverser subclass found by walking ufl.* and ~60 public functions "
    "wrapping them are applied, in fresh subprocesses, to expressions containing instances of 7 kinds of Expr "
    "subclasses registered after the algorithm class was instantiated / used / kept as an instance, and in random "
    "longer histories mixing several algorithms and registrations; each step's outcome (full-fidelity canon of "
    "the result or exception class) is compared with the same step of the process in which the registrations come "
    "first, and lookups that die in a typecode-indexed table are reported even in the type-first order."
)
LEVEL_NOTE = (
    "trusted: vf.canon; the catalogue of constructor arguments / inputs per algorithm in vf/c20_driver.py; "
    "bounded: 7 late-type kinds, 7 expression contexts on one triangle mesh, histories of at most ~300 steps"
)
RULE = (
    "the first cases enumerate (group of 33 algorithm entries x late-type kind) with the pattern `all` = instantiate "
    "and keep every class of the group, use every entry on old types in all its contexts, register the kind, use "
    "fresh and kept instances on the late type in all contexts, use on old types again (grouping shuffled by the "
    "seed; every entry meets every kind); the thorough tier adds every (entry, kind, pattern) on its own with the "
    "patterns all / use / inst / held (used before, only instantiated before, instance kept across the "
    "registration); the remaining cases are random histories of 8-25 steps over 1-3 kinds and 2-5 entries.  A U step "
    "is distinct by (entry, target kind, context, fresh/kept instance, how the entry was touched before the "
    "registration) and non-trivial when the late-type instance reached a method of the algorithm object in at least "
    "one of the two processes"
)
ASSUMPTIONS = [
    "the type-first process (all registrations before any algorithm use, after `import ufl`) defines the expected outcome",
    "outcome = vf.canon (mode rel) of the result, or (exception class, raised-by-typecode-table-lookup flag); "
    "exception messages are not compared",
    "a late type is registered like a downstream library does it: subclass + @ufl_type after `import ufl`",
    "an algorithm instance kept across a registration is within the quantifier (separate mechanism keys *held-instance*)",
]
BUDGET = {"quick": 100, "thorough": 420}
NCASES = {"quick": 112, "thorough": 4400}
WORKERS = {"quick": 16, "thorough": 16}
EVAL_COUNTER = "u_steps_compared"
FLOORS = {
    "quick": {
        "histories": 40,
        "enumerated_histories": 21,
        "random_histories": 15,
        "u_steps_compared": 9000,
        "u_new_compared": 5000,
        "u_new_dispatched": 3500,
        "ref_new_ok": 3000,
    },
    "thorough": {
        "histories": 600,
        "enumerated_histories": 320,
        "random_histories": 200,
        "u_steps_compared": 15000,
        "u_new_compared": 8000,
        "u_new_dispatched": 6000,
        "ref_new_ok": 5500,
    },
}
EXHAUSTIVE = False

KINDS = ["op", "sub_sum", "sub_sin", "sub_grad", "terminal", "geo", "sub_jac", "math"]
PATTERNS = ["all", "use", "inst", "held"]
EXPECTED_CLASSES = [
    "ArityChecker", "BalanceModifiers", "BaseFormOperatorDerivativeRuleset", "ChangeToReferenceGrad", "CheckComparisons",
    "CoefficientSplitter", "ComplexNodeRemoval", "CoordinateDerivativeIsOutermostChecker", "CoordinateDerivativeRuleDispatcher",
    "CoordinateDerivativeRuleset", "CopyTransformer", "DAGTraverser", "DerivativeNodeReplacer", "DerivativeRuleDispatcher",
    "Expression2UnicodeHandler", "FormSplitter", "FunctionPullbackApplier", "GateauxDerivativeRuleset",
    "GenericDerivativeRuleset", "GeometryLoweringApplier", "GradRuleset", "IdentityEliminator", "IndexExpander",
    "IndexRelabeller", "IndexRemover", "IndexReplacer", "IndexSumSimplifier", "JacobianCanceller", "LowerCompoundAlgebra",
    "MultiFunction", "PartExtracter", "PrecedenceRules", "ReciprocalCanceller", "ReferenceGradRuleset", "Replacer",
    "RestrictionChecker", "RestrictionPropagator", "ReuseTransformer", "SumDegreeEstimator", "TerminalStripper",
    "Transformer", "VariableRuleset", "VariableStripper",
]
EXPECTED_FUNCTIONS = [
    "apply_algebra_lowering", "apply_derivatives", "expand_derivatives", "expand_indices", "renumber_indices",
    "remove_complex_nodes", "estimate_total_polynomial_degree", "hash", "compute_expression_signature", "form_signature",
    "replace", "apply_function_pullbacks", "apply_geometry_lowering", "apply_restrictions", "check_integrand_arity",
    "remove_component_tensors", "strip_terminal_data", "strip_variables", "compute_form_data", "ufl2unicode", "str",
    "sorted_expr", "compute_form_lhs", "compute_form_adjoint",
]
COVER_FLOORS = {
    t: {
        "algorithms": ["cls:" + c for c in EXPECTED_CLASSES] + ["fn:" + f for f in EXPECTED_FUNCTIONS],
        "kinds": KINDS,
        "bases": ["MultiFunction", "Transformer", "DAGTraverser", "mixed", "table"],
    }
    for t in ("quick", "thorough")
}

TIMEOUT = 90  # seconds per driver subprocess (normally ~1 s)
CASE_TIMEOUT = 200  # runner's per-case alarm: a case is two driver subprocesses
_CAT = {}


# ------------------------------------------------------------------------------------------------
# subprocess plumbing
# ------------------------------------------------------------------------------------------------
def _env():
    env = dict(os.environ)
    env["PYTHONPATH"] = VERIF_DIR + os.pathsep + env.get("PYTHONPATH", "")
    env.setdefault("PYTHONHASHSEED", "0")
    env["OPENBLAS_NUM_THREADS"] = "1"
    env["OMP_NUM_THREADS"] = "1"
    env["MKL_NUM_THREADS"] = "1"
    return env


def _driver(arg, stdin=None):
    p = subprocess.run(
        [sys.executable, "-B", "-m", "vf.c20_driver", arg],
        input=stdin,
        env=_env(),
        cwd=VERIF_DIR,
        capture_output=True,
        text=True,
        timeout=TIMEOUT,
    )
    for line in p.stdout.splitlines():
        if line.startswith("C20RESULT "):
            return json.loads(line[len("C20RESULT "):])
    raise RuntimeError(f"C20 driver gave no result (rc={p.returncode}): {p.stderr[-1500:]}")


def catalogue():
    if not _CAT:
        _CAT.update(_driver("--list"))
    return _CAT


def run_history(ctx, steps):
    ctx.count("processes")
    return _driver("-", json.dumps(steps))["steps"]


# ------------------------------------------------------------------------------------------------
# histories
# ------------------------------------------------------------------------------------------------
def R(k):
    return {"op": "R", "kind": k}


def I(a, hold=False):  # noqa: E743
    return {"op": "I", "alg": a, "hold": hold}


def U(a, target, c, inst="fresh"):
    return {"op": "U", "alg": a, "target": target, "ctx": c, "inst": inst}


def type_first(steps):
    """The reference history: all registrations first (same relative order), everything else unchanged."""
    return [s for s in steps if s["op"] == "R"] + [s for s in steps if s["op"] != "R"]


def show(steps):
    out = []
    for s in steps:
        if s["op"] == "R":
            out.append(f"R({s['kind']})")
        elif s["op"] == "I":
            out.append(f"I({s['alg']}{',hold' if s.get('hold') else ''})")
        else:
            out.append(f"U({s['alg']}{'@held' if s.get('inst') == 'held' else ''},{s['target']},c{s['ctx']})")
    return " ".join(out)


def pattern_history(algs, kind, pattern, cat):
    """History of one pattern for a group of algorithm entries (a single entry in the isolated enumeration)."""
    ents = cat["entries"]
    classes = [a for a in algs if ents[a]["is_class"]]
    old = [U(a, "old", c) for a in algs for c in ents[a]["ctxs"]]
    new = [U(a, kind, c) for a in algs for c in ents[a]["ctxs"]]
    new_held = [U(a, kind, c, "held") for a in classes for c in ents[a]["ctxs"]]
    again = [U(a, "old", ents[a]["ctxs"][0]) for a in algs]
    again_held = [U(a, "old", ents[a]["ctxs"][0], "held") for a in classes]
    if pattern == "use":
        return old + [R(kind)] + new + again
    if pattern == "inst":
        return [I(a) for a in classes] + [R(kind)] + new + again
    if pattern == "held":
        return [I(a, True) for a in classes] + [R(kind)] + new_held + again_held
    if pattern == "all":
        return [I(a, True) for a in classes] + old + [R(kind)] + new + new_held + again + again_held
    raise ValueError(pattern)


def random_history(rng, cat):
    ents = cat["entries"]
    names = sorted(ents)
    kinds = rng.sample(KINDS, rng.choice([1, 2, 2, 3]))
    algs = rng.sample(names, rng.randint(2, 5))
    steps = []
    registered = []
    pending = list(kinds)
    held = set()
    n = rng.randint(8, 18)
    # positions of the registrations: never all at the very beginning
    while len(steps) < n or pending:
        if pending and len(steps) >= 1 and (rng.random() < 0.2 or len(steps) >= n):
            k = pending.pop(0)
            steps.append(R(k))
            registered.append(k)
            continue
        a = rng.choice(algs)
        e = ents[a]
        r = rng.random()
        if e["is_class"] and r < 0.2:
            hold = rng.random() < 0.5
            steps.append(I(a, hold))
            if hold:
                held.add(a)
            continue
        target = rng.choice(registered) if registered and rng.random() < 0.7 else "old"
        inst = "held" if a in held and rng.random() < 0.4 else "fresh"
        steps.append(U(a, target, rng.choice(e["ctxs"]), inst))
    # make sure every registered kind is used afterwards by an algorithm touched before its registration
    for k in kinds:
        pos = next(i for i, s in enumerate(steps) if s["op"] == "R" and s["kind"] == k)
        before = [s["alg"] for s in steps[:pos] if s["op"] != "R"]
        if before:
            a = rng.choice(before)
            steps.append(U(a, k, rng.choice(ents[a]["ctxs"])))
    return steps


# ------------------------------------------------------------------------------------------------
# oracle
# ------------------------------------------------------------------------------------------------
def show_for(steps, alg):
    """Compact history: the registrations and the steps of `alg`; other algorithms' steps are summarised."""
    out = []
    other = 0
    for s in steps:
        if s["op"] == "R" or s.get("alg") == alg:
            if other:
                out.append(f"<{other} steps of other algorithms>")
                other = 0
            out.append(show([s]))
        else:
            other += 1
    if other:
        out.append(f"<{other} steps of other algorithms>")
    return " ".join(out)


def site(o):
    """module.function of the failing typecode-table lookup (part of the mechanism key)."""
    w = o.get("where") or ["?", "?"]
    return f"{str(w[0]).removesuffix('.py')}.{w[1]}"


def outcome_key(o):
    if o["status"] == "ok":
        return ("ok", o.get("canon"))
    where = tuple(o.get("where") or ())[:2] if o.get("table") else None
    return ("exc", o.get("exc"), bool(o.get("table")), o.get("phase"), where)


def brief(o):
    if o["status"] == "ok":
        c = o.get("canon") or ""
        return "result " + (c if len(c) < 160 else c[:157] + "...")
    w = o.get("where")
    return f"{o.get('exc')}({o.get('msg', '')[:80]}) at {w} `{o.get('line', '')[:90]}`" + (" [typecode table lookup]" if o.get("table") else "")


def preceded_by(steps, pos, alg):
    """How the algorithm was touched before the last registration preceding step `pos`."""
    last_r = max((i for i in range(pos) if steps[i]["op"] == "R"), default=-1)
    tags = set()
    for s in steps[:last_r if last_r >= 0 else 0]:
        if s["op"] == "I" and s["alg"] == alg:
            tags.add("instantiated")
        elif s["op"] == "U" and s["alg"] == alg:
            tags.add("used")
        elif s["op"] != "R":
            tags.add("other-algorithms-used")
    return tuple(sorted(tags))


def judge(ctx, steps, label):
    cat = catalogue()
    ref_steps = type_first(steps)
    test = run_history(ctx, steps)
    ref = run_history(ctx, ref_steps)
    ctx.count("histories")
    if len(test) != len(steps) or len(ref) != len(steps):
        raise RuntimeError("driver returned a wrong number of step outcomes")
    # map every step of the test history to its position in the reference history
    order = [i for i, s in enumerate(steps) if s["op"] == "R"] + [i for i, s in enumerate(steps) if s["op"] != "R"]
    ref_of = {orig: j for j, orig in enumerate(order)}
    identical = ref_steps == steps
    nviol = 0
    for pos, st in enumerate(steps):
        t, r = test[pos], ref[ref_of[pos]]
        if st["op"] == "I":
            ctx.count("i_steps_compared")
            if outcome_key(t) != outcome_key(r):
                ent = cat["entries"][st["alg"]]
                ctx.violation(
                    f"C20/{ent['base']}/instantiation-differs/{st['alg']}",
                    f"instantiating {st['alg']} gives {brief(t)} in [{show_for(steps, st['alg'])}] but {brief(r)} type-first",
                    {"history": steps, "step": pos},
                )
                nviol += 1
            continue
        if st["op"] == "R":
            ctx.count("r_steps_compared")
            ctx.covered("kinds", st["kind"])
            if outcome_key(t) != outcome_key(r):
                ctx.violation(
                    f"C20/registration/differs/{st['kind']}",
                    f"registering kind {st['kind']} gives {brief(t)} in [{show(steps)}] but {brief(r)} type-first",
                    {"history": steps, "step": pos},
                )
                nviol += 1
            continue
        alg = st["alg"]
        ent = cat["entries"][alg]
        base = ent["base"]
        new = st["target"] != "old"
        held = st.get("inst") == "held"
        ctx.count("u_steps_compared")
        ctx.covered("algorithms", alg)
        ctx.covered("bases", base)
        if t.get("phase") == "build" or r.get("phase") == "build":
            # the input expression itself could not be built (not an algorithm event)
            ctx.count("u_input_not_built")
            if outcome_key(t) != outcome_key(r):
                ctx.violation(
                    f"C20/constructor/input-build-differs/{st['target']}",
                    f"building the input of {show([st])} gives {brief(t)} in [{show(steps)}] but {brief(r)} type-first",
                    {"history": steps, "step": pos},
                )
                nviol += 1
            continue
        if new:
            ctx.count("u_new_compared")
            ctx.count("ref_new_ok" if r["status"] == "ok" else "ref_new_raises")
            if t.get("trace") or r.get("trace"):
                ctx.count("u_new_dispatched")
                ctx.add_distinct((alg, st["target"], st["ctx"], held, preceded_by(steps, pos, alg)))
            for h in r.get("trace", []):
                ctx.covered("handlers_reached_by_late_types", h)
        else:
            ctx.count("u_old_compared")
            ctx.count("ref_old_ok" if r["status"] == "ok" else "ref_old_raises")
        if identical:
            ctx.count("u_steps_in_type_first_histories")
        how = "held-instance" if held else "class-cache"
        tk, rk = outcome_key(t), outcome_key(r)
        detail = {"history": steps, "step": pos, "observed": t, "type_first": r, "label": label}
        if tk != rk:
            if t.get("table"):
                failure = f"stale-table-{how}@{site(t)}"
            elif t["status"] == "ok" and r["status"] == "ok":
                failure = f"result-differs-{how}"
            else:
                failure = f"exception-differs-{how}"
            ctx.violation(
                f"C20/{base}/{failure}/{alg}",
                f"{show([st])} gives {brief(t)} in history [{show_for(steps, alg)}], but {brief(r)} when the registrations come first",
                detail,
            )
            nviol += 1
        elif sorted(t.get("trace", [])) != sorted(r.get("trace", [])):
            ctx.violation(
                f"C20/{base}/handler-differs-{how}/{alg}",
                f"{show([st])}: the late-type instance reached {t.get('trace')} in history [{show_for(steps, alg)}] but {r.get('trace')} "
                "type-first (same outcome)",
                detail,
            )
            nviol += 1
        # (b) even type-first, a registered type must reach a handler
        if new and r.get("table"):
            ctx.count("ref_new_table_lookup_failed")
            ctx.violation(
                f"C20/{base}/no-dispatch-even-type-first{'-held-instance' if held else ''}@{site(r)}/{alg}",
                f"{show([st])} dies in a typecode table lookup although the type was registered before any algorithm use: "
                f"{brief(r)}; type-first history [{show_for(ref_steps, alg)}]",
                {"history": ref_steps, "step": ref_of[pos], "observed": r, "label": label},
            )
            nviol += 1
    if nviol == 0:
        ctx.count("histories_without_violation")
    ctx.sample(
        {
            "history": show(steps)[:1500],
            "label": label,
            "steps": [
                {"step": show([s]), "observed": brief(test[i])[:120], "type_first": brief(ref[ref_of[i]])[:120], "trace": test[i].get("trace", [])[:4]}
                for i, s in enumerate(steps)
                if s["op"] == "U"
            ][:6],
        },
        limit=1 if label.startswith("enum") else 2,
    )


# ------------------------------------------------------------------------------------------------
# framework entry points
# ------------------------------------------------------------------------------------------------
def setup(ctx):
    cat = catalogue()
    if sorted(cat["kinds"]) != sorted(KINDS):
        raise RuntimeError("driver and check disagree about the late-type kinds")


GROUP = 33


def enumeration(cat, tier, seed):
    """Work items: ("batch", [entries], kind, "all") for groups of entries (grouping shuffled by the seed), and in
    the thorough tier additionally every (entry, kind, pattern) on its own."""
    import random

    names = sorted(cat["entries"])
    sh = list(names)
    random.Random(f"C20/groups/{seed}").shuffle(sh)
    groups = [sorted(sh[j : j + GROUP]) for j in range(0, len(sh), GROUP)]
    items = [("batch", g, k, "all") for k in KINDS for g in groups]
    iso = []
    if tier != "quick":
        for a in names:
            for k in KINDS:
                for p in PATTERNS if cat["entries"][a]["is_class"] else ["use"]:
                    iso.append(("iso", [a], k, p))
    return items, iso


def case(ctx, i, rng):
    try:
        _case(ctx, i, rng)
    except subprocess.TimeoutExpired:
        # an overloaded machine, not an observation: the case stays undecided (the floors decide about the run)
        ctx.count("case_timeout")


def _case(ctx, i, rng):
    cat = catalogue()
    items, iso = enumeration(cat, ctx.tier, ctx.seed)
    item = None
    if i < len(items):
        item = items[i]
    else:
        j = i - len(items)
        if j % 2 == 0 and j // 2 < len(iso):
            item = iso[j // 2]
    if item is not None:
        tag, algs, k, p = item
        ctx.count("enumerated_histories")
        ctx.count(f"{tag}_pattern_{p}")
        steps = pattern_history(algs, k, p, cat)
        judge(ctx, steps, f"enum:{tag}:{k}:{p}")
    else:
        steps = random_history(rng, cat)
        ctx.count("random_histories")
        judge(ctx, steps, "random")


def finish(ctx):
    cat = catalogue()
    if ctx.sub == 0:
        items, iso = enumeration(cat, ctx.tier, ctx.seed)
        ctx.count("enumeration_size", len(items) + len(iso))
        ctx.count("catalogue_classes", sum(1 for e in cat["entries"].values() if e["is_class"]))
        ctx.count("catalogue_functions", sum(1 for e in cat["entries"].values() if not e["is_class"]))
        if len(items) + 2 * len(iso) + 50 > NCASES[ctx.tier]:
            raise RuntimeError("NCASES is smaller than the enumeration; raise it")
