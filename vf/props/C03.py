"""C03 - spatial derivatives are lowered to exact derivatives of terminals.

Events: expand_derivatives(e) / apply_derivatives(apply_algebra_lowering(e)) on expressions in which
grad, div, curl, nabla_grad, nabla_div and .dx are applied (nested up to three deep) to arbitrary
generated sub-expressions, including geometric quantities.
Oracle: (1) value: the interpreter evaluates the *input* derivative nodes by definition (jets: the
operand is evaluated at a position perturbed in reference space, polynomial fields evaluated at the
jet position give all mixed partials) and the output with the same interpreter; (2) structure: in
the output every Grad/ReferenceGrad chain ends in a terminal and no compound derivative survives.
"""

import ufl
from ufl.algorithms import expand_derivatives
from ufl.algorithms.apply_algebra_lowering import apply_algebra_lowering
from ufl.algorithms.apply_derivatives import apply_derivatives

from .. import elements as E
from .. import oracle
from ..gen import Gen, Universe
from ..passcheck import check_pass, node_classes, skeleton

LEVEL = "exploration"
ENGINE = "seval"
TECHNIQUE = "differential runtime monitoring: derivative nodes evaluated by definition with nested dual numbers vs. value of the real expansion"
LEVEL_TEXT = (
    "The real derivative expansion is run on thousands of generated expressions with spatial derivative operators nested "
    "up to three deep over every operator of the language; the input is evaluated by the definition of the derivative "
    "(jets over polynomial fields on random affine cells, incl. immersed manifolds), the output by the same interpreter, "
    "and the two values are compared (50-digit confirmation); the output is also checked to differentiate terminals only."
)
LEVEL_NOTE = ("trusted: jet algebra (self-checked derivative table), vf/seval.py; bounds: depth<=4, derivative nesting<=3, polynomial degree<=3, affine simplex "
              "cells plus (about 15 % of the cases) single non-affine cells with a quadratic map, tdim == gdim, whose world is self-tested against finite differences at start-up")
RULE = (
    "case i = (outer derivative operator(s), generated operand expression, cell, gdim, real/complex); distinct = skeleton(depth 3) "
    "of the input + cell + complex flag; non-trivial = input contains at least one derivative node applied to a non-terminal "
    "or a nested derivative"
)
ASSUMPTIONS = [
    "grad is the tangential gradient on immersed manifolds",
    "abs/sign/min/max/conditionals are differentiated away from their kinks (samples near a kink are inconclusive)",
]
BUDGET = {"quick": 50, "thorough": 450}
NCASES = {"quick": 3000, "thorough": 60000}
FLOORS = {"quick": {"case_held": 400, "nontrivial": 300, "two_mesh_held": 25, "curved_held": 40, "bydef_held": 60, "selftest_non_affine_world_ok": 3}, 'thorough': {'case_held': 12000, 'nontrivial': 8000, 'two_mesh_held': 700, 'curved_held': 800, 'bydef_held': 1000, 'selftest_non_affine_world_ok': 3, 'suite:apply_derivatives:held': 3000, 'suite:apply_derivatives:held_and_changed': 2000}}
COVER_FLOORS = {"quick": {"outer": ["grad", "div", "curl", "nabla_grad", "nabla_div", "dx"]}, "thorough": {"outer": ["grad", "div", "curl", "nabla_grad", "nabla_div", "dx"]}}
CELLS = [("interval", 1), ("interval", 2), ("triangle", 2), ("triangle", 2), ("triangle", 3), ("tetrahedron", 3), ("tetrahedron", 3)]
DERIV = {"Grad", "Div", "Curl", "NablaGrad", "NablaDiv", "ReferenceGrad", "ReferenceDiv", "ReferenceCurl"}


def wrap(rng, U, G, depth, levels):
    """Apply `levels` derivative operators around a generated operand."""
    g = U.gdim
    ops = []
    shape = rng.choice([(), (), (g,), (g,), (g, g), (2,), (2, g)])
    e = G.expr(shape, depth)
    for _ in range(levels):
        sh = tuple(e.ufl_shape)
        cands = ["grad", "nabla_grad", "dx"]
        if len(sh) >= 1 and sh[-1] == g:
            cands.append("div")
        if len(sh) >= 1 and sh[0] == g:
            cands.append("nabla_div")
        if (g == 3 and sh == (3,)) or (g == 2 and sh in ((), (2,))):
            cands += ["curl", "curl"]
        if len(sh) >= 3:
            cands = [c for c in cands if c not in ("grad", "nabla_grad")] or ["dx"]
        op = rng.choice(cands)
        ops.append(op)
        if op == "dx":
            k = rng.randrange(g)
            e = e.dx(k) if rng.random() < 0.6 or not sh else e[(Ellipsis, rng.choice(U.idx))].dx(k) * 1
            if e.ufl_free_indices:
                # close the free index again with a constant vector of matching length
                i = [j for j in U.idx if j.count() in e.ufl_free_indices][0]
                n = dict(zip(e.ufl_free_indices, e.ufl_index_dimensions))[i.count()]
                e = e * U.const((n,), 0)[i]
        else:
            e = getattr(ufl, op)(e)
        # interleave ordinary operators between derivative levels
        if rng.random() < 0.4 and e.ufl_shape == ():
            e = e * G.expr((), 1) + ufl.sin(e) if G.math else e * G.expr((), 1)
        elif rng.random() < 0.3 and e.ufl_shape:
            e = e * G.expr((), 1)
    return e, ops


def derivative_targets_ok(out):
    """Every Grad/ReferenceGrad chain must end in a terminal; no compound derivative left."""
    bad = []
    seen = set()

    def walk(o):
        if id(o) in seen:
            return
        seen.add(id(o))
        n = type(o).__name__
        if n in ("Div", "Curl", "NablaGrad", "NablaDiv", "ReferenceDiv", "ReferenceCurl", "VariableDerivative", "CoefficientDerivative"):
            bad.append(n)
        if n in ("Grad", "ReferenceGrad"):
            t = o
            while type(t).__name__ in ("Grad", "ReferenceGrad"):
                t = t.ufl_operands[0]
            if type(t).__name__ == "ReferenceValue":
                t = t.ufl_operands[0]
            if not t._ufl_is_terminal_:
                bad.append(n + "(" + type(t).__name__ + ")")
        for c in o.ufl_operands:
            walk(c)

    walk(out)
    return bad


def scalar_of(rng, e):
    return e[tuple(rng.randrange(d) for d in e.ufl_shape)] if e.ufl_shape else e


def two_meshes(ctx, rng):
    """One expansion call on an expression / form that lives on two meshes of different geometric dimension:
    each part must be differentiated with respect to its own mesh's coordinates."""
    (c1, g1), (c2, g2) = rng.sample([("interval", 1), ("interval", 2), ("triangle", 2), ("triangle", 3), ("tetrahedron", 3)], 2)
    cplx = False
    parts = []
    try:
        for cell, gdim in ((c1, g1), (c2, g2)):
            U = Universe(rng, cell, gdim, "cell", cplx)
            G = Gen(U, rng, cplx=cplx, deriv=rng.choice([0, 1]), cond=False, math=rng.random() < 0.5, geom=rng.random() < 0.5)
            G.extra = [U.x]
            G.extra_prob = 0.5
            e, ops = wrap(rng, U, G, rng.choice([1, 2]), rng.choice([1, 1, 2]))
            parts.append((scalar_of(rng, e), U, cell, gdim))
        if rng.random() < 0.5:
            kind = "list"
            obj = ufl.as_vector([p[0] for p in parts])
        else:
            kind = "form"
            obj = parts[0][0] * ufl.dx(domain=parts[0][1].mesh) + parts[1][0] * ufl.dx(domain=parts[1][1].mesh)
    except Exception as ex:
        ctx.count("build_rejected")
        ctx.covered("build_rejected_with", type(ex).__name__)
        return
    fn = expand_derivatives if rng.random() < 0.5 else (lambda x: apply_derivatives(apply_algebra_lowering(x)))
    try:
        out = fn(obj)
    except Exception as ex:
        # the property has no "or raises" clause; what raises for a part alone is not judged, but an expansion
        # that fails only because the two parts are expanded in ONE call is a defect of the expansion
        alone = []
        for p in parts:
            try:
                fn(p[0])
                alone.append(True)
            except Exception:
                alone.append(False)
        if all(alone):
            ctx.violation(f"C03/expand_derivatives/two-meshes/{kind}/raises-only-when-expanded-together/{type(ex).__name__}",
                          f"each part expands alone, the joint expansion raises {type(ex).__name__}: {str(ex)[:200]}",
                          {"parts": [str(p[0])[:500] for p in parts], "cells": [(p[2], p[3]) for p in parts]})
            return
        ctx.count("rejected")
        ctx.covered("rejected_with", type(ex).__name__ + ":two-meshes")
        return
    outs = []
    if kind == "list":
        if type(out).__name__ != "ListTensor" or len(out.ufl_operands) != 2:
            ctx.count("two_mesh_output_shape_unexpected")
            return
        outs = list(out.ufl_operands)
    else:
        for p in parts:
            its = [itg.integrand() for itg in out.integrals() if itg.ufl_domain() == p[1].mesh]
            if len(its) != 1:
                ctx.count("two_mesh_output_shape_unexpected")
                return
            outs.append(its[0])
    ok = True
    for (e, U, cell, gdim), o in zip(parts, outs):
        worlds = oracle.worlds_for(rng, cell, gdim, "cell", cplx, n=3)
        for w in worlds:
            w.mesh = U.mesh
        verdict, _ = check_pass(ctx, "C03", "expand_derivatives", e, lambda x, o=o: o, worlds, localise=False,
                                key_override="two-meshes/" + kind + ("/manifold" if gdim > E.TD[cell] else ""))
        ok = ok and verdict == "held"
    if ok:
        ctx.count("two_mesh_held")
        ctx.add_distinct(("two-meshes", kind, c1, g1, c2, g2, skeleton(parts[0][0], 2)))


def once(ctx):
    """Start-up self-test of the non-affine world: the interpreter's first and second physical derivatives of a reference
    polynomial and of det J are compared with central finite differences through an independently inverted cell map."""
    import random

    import numpy as np

    from ..jet import CBackend
    from ..seval import S
    from ..world import CurvedWorld

    rng = random.Random(ctx.seed * 7919 + 13)
    B = CBackend()
    for cell, g in (("interval", 1), ("triangle", 2), ("tetrahedron", 3)):
        U = Universe(rng, cell, g, "cell", False, coord_degree=2)
        w = CurvedWorld(rng, cell, g)
        f = U.coef("P2")
        S(f, w)
        pf = w.field(f, "+")

        def X_of(xv):
            X = w.sides["+"].X.copy()
            for _ in range(60):
                r = w.x0 + w.A @ X + 0.5 * np.einsum("gtu,t,u->g", w.Q, X, X) - xv
                X = X - np.linalg.solve(w.A + w.Q @ X, r)
            return X

        def fval(xv):
            return complex(pf.eval(B, B.asarray(X_of(xv)), 0)[0]).real

        def dval(xv):
            X = X_of(xv)
            return float(np.linalg.det(w.A + w.Q @ X))

        h = 1e-4
        eye = np.eye(g)
        x0 = np.array(w.x, dtype=float)
        for name, fun, expr in (("field", fval, f), ("detJ", dval, ufl.JacobianDeterminant(U.mesh))):
            g1 = np.array([(fun(x0 + h * e) - fun(x0 - h * e)) / (2 * h) for e in eye])
            g2 = np.array([[(fun(x0 + h * a + h * b) - fun(x0 + h * a - h * b) - fun(x0 - h * a + h * b) + fun(x0 - h * a - h * b)) / (4 * h * h) for b in eye] for a in eye])
            s1 = np.asarray(S(ufl.grad(expr), w).arr, dtype=complex).real.reshape(g)
            s2 = np.asarray(S(ufl.grad(ufl.grad(expr)), w).arr, dtype=complex).real.reshape(g, g)
            sc = max(1.0, float(np.max(np.abs(g2))))
            if np.max(np.abs(s1 - g1)) > 1e-5 * sc or np.max(np.abs(s2 - g2)) > 1e-4 * sc:
                raise RuntimeError(f"non-affine world self-test failed for {name} on {cell}: {s1} vs {g1}; {s2} vs {g2}")
        kj = np.asarray(S(ufl.JacobianInverse(U.mesh) * ufl.Jacobian(U.mesh), w).arr, dtype=complex)
        if np.max(np.abs(kj - np.eye(g))) > 1e-12:
            raise RuntimeError("non-affine world self-test failed: K J != I")
        ctx.count("selftest_non_affine_world_ok")


def by_definition(ctx, rng):
    """One derivative operator applied through the public function to an operand that exists as an expression: the
    expected value is the interpreter's own application of the operator to the operand (S_apply: jets of the operand), so
    whatever the constructor folds away when the node is built (grad of a constant, of the coordinate field, ...) is judged
    too.  Bare terminals are the favourite operands, on ordinary and immersed cells."""
    from ..seval import S_apply
    from ..seval import Result as _R  # noqa: F401

    cell, gdim = rng.choice(CELLS)
    cplx = rng.random() < 0.2
    U = Universe(rng, cell, gdim, "cell", cplx)
    g = gdim
    G = Gen(U, rng, cplx=cplx, deriv=0, cond=False, math=rng.random() < 0.5, geom=rng.random() < 0.5)
    names = sorted(U.spaces)
    r = rng.random()
    try:
        if r < 0.3:
            T, what = U.x, "SpatialCoordinate"
        elif r < 0.55:
            T = U.coef(rng.choice(names), rng.randrange(2))
            what = "Coefficient"
        elif r < 0.65:
            T = U.const(rng.choice([(), (g,), (g, g)]), 0)
            what = "Constant"
        elif r < 0.75:
            T = rng.choice([ufl.Jacobian, ufl.JacobianInverse, ufl.JacobianDeterminant, ufl.CellVolume, ufl.FacetNormal if False else ufl.CellVolume])(U.mesh)
            what = type(T).__name__
        else:
            T = G.expr(rng.choice([(), (g,), (g, g), (2,)]), rng.choice([1, 2]))
            what = "expression"
        sh = tuple(T.ufl_shape)
        cands = ["grad", "nabla_grad", "dx"]
        if len(sh) >= 1 and sh[-1] == g:
            cands.append("div")
        if len(sh) >= 1 and sh[0] == g:
            cands.append("nabla_div")
        if (g == 3 and sh == (3,)) or (g == 2 and sh in ((), (2,))):
            cands.append("curl")
        if len(sh) >= 3:
            cands = ["dx"]
        op = rng.choice(cands)
        if op == "dx":
            k = rng.randrange(g)
            e = T.dx(k)
        else:
            e = getattr(ufl, op)(T)
        out = expand_derivatives(e) if rng.random() < 0.5 else apply_derivatives(apply_algebra_lowering(e))
    except Exception as ex:
        ctx.count("build_rejected")
        ctx.covered("build_rejected_with", type(ex).__name__)
        return
    worlds = oracle.worlds_for(rng, cell, gdim, "cell", cplx, n=3)
    manifold = gdim > E.TD[cell]

    def fin(w, B):
        if op == "dx":
            rr = S_apply("grad", [T], w, B)
            rr.arr = rr.arr[..., k] if True else rr.arr
            rr.rank -= 1
            return rr
        return S_apply(op, [T], w, B)

    def fout(w, B):
        return oracle.S(out, w, B)

    vs = [oracle.compare_once(fin, fout, w) for w in worlds]
    from ..passcheck import count_verdicts

    count_verdicts(ctx, vs, "bydef_")
    kinds = [v.kind for v in vs]
    if any(kd in ("input-structure", "input-ambiguous") for kd in kinds):
        ctx.count("bydef_skipped")
        return
    verdict = oracle.decide(vs)
    ctx.count("bydef_" + verdict)
    if verdict == "held":
        ctx.covered("bydef_held", f"{op}({what})" + ("/manifold" if manifold else ""))
        ctx.add_distinct(("by-definition", op, what, cell, gdim, skeleton(T, 1)))
    elif verdict == "violated":
        bad = next(v for v in vs if v.kind in ("disagree", "output-ambiguous"))
        ctx.violation(f"C03/by-definition/{op}({what})" + ("/manifold" if manifold else ""),
                      f"{op} of {what} expands to a value that is not the derivative of the operand ({bad.kind}, rel. err {bad.err}, {bad.why})",
                      {"operand": str(T)[:600], "built": str(e)[:600], "expanded": str(out)[:800], "world": worlds[0].describe()})


def curved(ctx, rng):
    """Non-affine cells (P2 coordinate element): fields are polynomials in the reference coordinates, hence not polynomials
    in x; Jacobian, its inverse and determinant vary over the cell.  Nothing that is only true on affine cells may be used."""
    from ..world import CurvedWorld

    cell, gdim = rng.choice([("interval", 1), ("triangle", 2), ("triangle", 2), ("tetrahedron", 3)])
    U = Universe(rng, cell, gdim, "cell", False, coord_degree=rng.choice([2, 2, 3]))
    levels = rng.choice([1, 2, 2, 3, 3])
    G = Gen(U, rng, cplx=False, deriv=rng.choice([0, 0, 1]), cond=rng.random() < 0.3, math=rng.random() < 0.6, geom=rng.random() < 0.7, piola=False)
    G.geo_scalar_classes = [ufl.JacobianDeterminant]
    # low-degree coefficients below several derivative operators are the point of this workload
    G.extra = [U.coef(n) for n in ("P1", "P2", "DG1") if n in U.spaces] + [U.x]
    G.extra_prob = 0.5
    try:
        e, ops = wrap(rng, U, G, rng.choice([0, 1, 1, 2]), levels)
    except Exception as ex:
        ctx.count("build_rejected")
        ctx.covered("build_rejected_with", type(ex).__name__)
        return
    route = rng.choice(["expand_derivatives", "lower+apply"])
    fn = expand_derivatives if route == "expand_derivatives" else (lambda x: apply_derivatives(apply_algebra_lowering(x)))
    worlds = []
    for _ in range(3):
        w = CurvedWorld(rng, cell, gdim)
        w.mesh = U.mesh
        worlds.append(w)
    verdict, out = check_pass(ctx, "C03", "expand_derivatives", e, fn, worlds, extra_key="/non-affine")
    ctx.count("curved_" + verdict.replace("-", "_"))
    if verdict == "held":
        ctx.add_distinct(("non-affine", skeleton(e, 3), cell, levels))
        for op in ops:
            ctx.covered("outer_non_affine", op)
        bad = derivative_targets_ok(out)
        if bad:
            ctx.violation(f"C03/expand_derivatives/derivative-of-non-terminal-left/{bad[0]}/non-affine", f"output still differentiates non-terminals: {bad[:4]}", {"input": str(e)[:800], "output": str(out)[:800]})


def case(ctx, i, rng):
    r = rng.random()
    if r < 0.12:
        return two_meshes(ctx, rng)
    if r < 0.27:
        return curved(ctx, rng)
    if r < 0.40:
        return by_definition(ctx, rng)
    cell, gdim = rng.choice(CELLS)
    cplx = rng.random() < 0.25
    U = Universe(rng, cell, gdim, "cell", cplx)
    levels = rng.choice([1, 1, 2, 2, 3])
    G = Gen(U, rng, cplx=cplx, deriv=rng.choice([0, 0, 1]), cond=rng.random() < 0.4, math=rng.random() < 0.7, geom=rng.random() < 0.7)
    try:
        e, ops = wrap(rng, U, G, rng.choice([1, 2, 2, 3]), levels)
    except Exception as ex:
        ctx.count("build_rejected")
        ctx.covered("build_rejected_with", type(ex).__name__)
        return
    for op in ops:
        ctx.covered("outer", op)
    route = rng.choice(["expand_derivatives", "lower+apply"])
    fn = expand_derivatives if route == "expand_derivatives" else (lambda x: apply_derivatives(apply_algebra_lowering(x)))
    worlds = oracle.worlds_for(rng, cell, gdim, "cell", cplx, n=3)
    manifold = gdim > E.TD[cell]
    verdict, out = check_pass(ctx, "C03", "expand_derivatives", e, fn, worlds, extra_key="/manifold" if manifold else "")
    if verdict == "held":
        ctx.count("nontrivial")
        ctx.add_distinct((skeleton(e, 3), cell, gdim, cplx))
        ctx.sample({"outer_ops": ops, "cell": [cell, gdim], "complex": cplx, "input": str(e)[:240]})
        bad = derivative_targets_ok(out)
        ctx.count("structure_checks")
        if bad:
            ctx.violation(f"C03/expand_derivatives/derivative-of-non-terminal-left/{bad[0]}", f"output still differentiates non-terminals: {bad[:4]}", {"input": str(e)[:800], "output": str(out)[:800]})


# ---- additional workload (thorough tier): the repository's own test-suite with this property's passes monitored
EXTRA_JOBS = {"thorough": ["suite"]}
SUITE_TARGETS = ['apply_derivatives']


def extra_suite(ctx):
    """Every call the repository's tests make to the monitored passes is judged by the same value oracle (vf/suitemon.py)."""
    from ..suite_driver import run_suite

    run_suite(ctx, SUITE_TARGETS, "C03")
