"""C03 - spatial derivatives are lowered to exact derivatives of terminals.

Events: expand_derivatives(e) / apply_derivatives(apply_algebra_lowering(e)) on expressions in which
grad, div, curl, nabla_grad, nabla_div and .dx are applied (nested up to three deep) to arbitrary
generated sub-expressions, including geometric quantities.
Oracle: (1) value: the interpreter evaluates the *input* derivative nodes by definition (jets: the
operand is evaluated at a position perturbed in reference space, polynomial fields evaluated at the
jet position give all mixed partials) and the output with the same interpreter; (2) structure: in
the output every Grad/ReferenceGrad chain ends in a terminal and no compound derivative survives.
"""

import ufl
from ufl.algorithms import expand_derivatives
from ufl.algorithms.apply_algebra_lowering import apply_algebra_lowering
from ufl.algorithms.apply_derivatives import apply_derivatives

from .. import elements as E
from .. import oracle
from ..gen import Gen, Universe
from ..passcheck import check_pass, node_classes, skeleton

LEVEL = "exploration"
ENGINE = "seval"
TECHNIQUE = "differential runtime monitoring: derivative nodes evaluated by definition with nested dual numbers vs. value of the real expansion"
LEVEL_TEXT = (
    "The real derivative expansion is run on thousands of generated expressions with spatial derivative operators nested "
    "up to three deep over every operator of the language; the input is evaluated by the definition of the derivative "
    "(jets over polynomial fields on random affine cells, incl. immersed manifolds), the output by the same interpreter, "
    "and the two values are compared (50-digit confirmation); the output is also checked to differentiate terminals only."
)
LEVEL_NOTE = "trusted: jet algebra (self-checked derivative table), vf/seval.py; bounds: depth<=4, derivative nesting<=3, polynomial degree<=3, affine simplex cells"
RULE = (
    "case i = (outer derivative operator(s), generated operand expression, cell, gdim, real/complex); distinct = skeleton(depth 3) "
    "of the input + cell + complex flag; non-trivial = input contains at least one derivative node applied to a non-terminal "
    "or a nested derivative"
)
ASSUMPTIONS = [
    "grad is the tangential gradient on immersed manifolds",
    "abs/sign/min/max/conditionals are differentiated away from their kinks (samples near a kink are inconclusive)",
]
BUDGET = {"quick": 50, "thorough": 450}
NCASES = {"quick": 3000, "thorough": 60000}
FLOORS = {'quick': {'case_held': 400, 'nontrivial': 300, 'two_mesh_held': 25}, 'thorough': {'case_held': 12000, 'nontrivial': 8000, 'two_mesh_held': 700, 'suite:apply_derivatives:held': 3000, 'suite:apply_derivatives:held_and_changed': 2000}}
COVER_FLOORS = {"quick": {"outer": ["grad", "div", "curl", "nabla_grad", "nabla_div", "dx"]}, "thorough": {"outer": ["grad", "div", "curl", "nabla_grad", "nabla_div", "dx"]}}
CELLS = [("interval", 1), ("interval", 2), ("triangle", 2), ("triangle", 2), ("triangle", 3), ("tetrahedron", 3), ("tetrahedron", 3)]
DERIV = {"Grad", "Div", "Curl", "NablaGrad", "NablaDiv", "ReferenceGrad", "ReferenceDiv", "ReferenceCurl"}


def wrap(rng, U, G, depth, levels):
    """Apply `levels` derivative operators around a generated operand."""
    g = U.gdim
    ops = []
    shape = rng.choice([(), (), (g,), (g,), (g, g), (2,), (2, g)])
    e = G.expr(shape, depth)
    for _ in range(levels):
        sh = tuple(e.ufl_shape)
        cands = ["grad", "nabla_grad", "dx"]
        if len(sh) >= 1 and sh[-1] == g:
            cands.append("div")
        if len(sh) >= 1 and sh[0] == g:
            cands.append("nabla_div")
        if (g == 3 and sh == (3,)) or (g == 2 and sh in ((), (2,))):
            cands += ["curl", "curl"]
        if len(sh) >= 3:
            cands = [c for c in cands if c not in ("grad", "nabla_grad")] or ["dx"]
        op = rng.choice(cands)
        ops.append(op)
        if op == "dx":
            k = rng.randrange(g)
            e = e.dx(k) if rng.random() < 0.6 or not sh else e[(Ellipsis, rng.choice(U.idx))].dx(k) * 1
            if e.ufl_free_indices:
                # close the free index again with a constant vector of matching length
                i = [j for j in U.idx if j.count() in e.ufl_free_indices][0]
                n = dict(zip(e.ufl_free_indices, e.ufl_index_dimensions))[i.count()]
                e = e * U.const((n,), 0)[i]
        else:
            e = getattr(ufl, op)(e)
        # interleave ordinary operators between derivative levels
        if rng.random() < 0.4 and e.ufl_shape == ():
            e = e * G.expr((), 1) + ufl.sin(e) if G.math else e * G.expr((), 1)
        elif rng.random() < 0.3 and e.ufl_shape:
            e = e * G.expr((), 1)
    return e, ops


def derivative_targets_ok(out):
    """Every Grad/ReferenceGrad chain must end in a terminal; no compound derivative left."""
    bad = []
    seen = set()

    def walk(o):
        if id(o) in seen:
            return
        seen.add(id(o))
        n = type(o).__name__
        if n in ("Div", "Curl", "NablaGrad", "NablaDiv", "ReferenceDiv", "ReferenceCurl", "VariableDerivative", "CoefficientDerivative"):
            bad.append(n)
        if n in ("Grad", "ReferenceGrad"):
            t = o
            while type(t).__name__ in ("Grad", "ReferenceGrad"):
                t = t.ufl_operands[0]
            if type(t).__name__ == "ReferenceValue":
                t = t.ufl_operands[0]
            if not t._ufl_is_terminal_:
                bad.append(n + "(" + type(t).__name__ + ")")
        for c in o.ufl_operands:
            walk(c)

    walk(out)
    return bad


def scalar_of(rng, e):
    return e[tuple(rng.randrange(d) for d in e.ufl_shape)] if e.ufl_shape else e


def two_meshes(ctx, rng):
    """One expansion call on an expression / form that lives on two meshes of different geometric dimension:
    each part must be differentiated with respect to its own mesh's coordinates."""
    (c1, g1), (c2, g2) = rng.sample([("interval", 1), ("interval", 2), ("triangle", 2), ("triangle", 3), ("tetrahedron", 3)], 2)
    cplx = False
    parts = []
    try:
        for cell, gdim in ((c1, g1), (c2, g2)):
            U = Universe(rng, cell, gdim, "cell", cplx)
            G = Gen(U, rng, cplx=cplx, deriv=rng.choice([0, 1]), cond=False, math=rng.random() < 0.5, geom=rng.random() < 0.5)
            G.extra = [U.x]
            G.extra_prob = 0.5
            e, ops = wrap(rng, U, G, rng.choice([1, 2]), rng.choice([1, 1, 2]))
            parts.append((scalar_of(rng, e), U, cell, gdim))
        if rng.random() < 0.5:
            kind = "list"
            obj = ufl.as_vector([p[0] for p in parts])
        else:
            kind = "form"
            obj = parts[0][0] * ufl.dx(domain=parts[0][1].mesh) + parts[1][0] * ufl.dx(domain=parts[1][1].mesh)
    except Exception as ex:
        ctx.count("build_rejected")
        ctx.covered("build_rejected_with", type(ex).__name__)
        return
    fn = expand_derivatives if rng.random() < 0.5 else (lambda x: apply_derivatives(apply_algebra_lowering(x)))
    try:
        out = fn(obj)
    except Exception as ex:
        # the property has no "or raises" clause; what raises for a part alone is not judged, but an expansion
        # that fails only because the two parts are expanded in ONE call is a defect of the expansion
        alone = []
        for p in parts:
            try:
                fn(p[0])
                alone.append(True)
            except Exception:
                alone.append(False)
        if all(alone):
            ctx.violation(f"C03/expand_derivatives/two-meshes/{kind}/raises-only-when-expanded-together/{type(ex).__name__}",
                          f"each part expands alone, the joint expansion raises {type(ex).__name__}: {str(ex)[:200]}",
                          {"parts": [str(p[0])[:500] for p in parts], "cells": [(p[2], p[3]) for p in parts]})
            return
        ctx.count("rejected")
        ctx.covered("rejected_with", type(ex).__name__ + ":two-meshes")
        return
    outs = []
    if kind == "list":
        if type(out).__name__ != "ListTensor" or len(out.ufl_operands) != 2:
            ctx.count("two_mesh_output_shape_unexpected")
            return
        outs = list(out.ufl_operands)
    else:
        for p in parts:
            its = [itg.integrand() for itg in out.integrals() if itg.ufl_domain() == p[1].mesh]
            if len(its) != 1:
                ctx.count("two_mesh_output_shape_unexpected")
                return
            outs.append(its[0])
    ok = True
    for (e, U, cell, gdim), o in zip(parts, outs):
        worlds = oracle.worlds_for(rng, cell, gdim, "cell", cplx, n=3)
        for w in worlds:
            w.mesh = U.mesh
        verdict, _ = check_pass(ctx, "C03", "expand_derivatives", e, lambda x, o=o: o, worlds, localise=False,
                                key_override="two-meshes/" + kind + ("/manifold" if gdim > E.TD[cell] else ""))
        ok = ok and verdict == "held"
    if ok:
        ctx.count("two_mesh_held")
        ctx.add_distinct(("two-meshes", kind, c1, g1, c2, g2, skeleton(parts[0][0], 2)))


def case(ctx, i, rng):
    if rng.random() < 0.12:
        return two_meshes(ctx, rng)
    cell, gdim = rng.choice(CELLS)
    cplx = rng.random() < 0.25
    U = Universe(rng, cell, gdim, "cell", cplx)
    levels = rng.choice([1, 1, 2, 2, 3])
    G = Gen(U, rng, cplx=cplx, deriv=rng.choice([0, 0, 1]), cond=rng.random() < 0.4, math=rng.random() < 0.7, geom=rng.random() < 0.7)
    try:
        e, ops = wrap(rng, U, G, rng.choice([1, 2, 2, 3]), levels)
    except Exception as ex:
        ctx.count("build_rejected")
        ctx.covered("build_rejected_with", type(ex).__name__)
        return
    for op in ops:
        ctx.covered("outer", op)
    route = rng.choice(["expand_derivatives", "lower+apply"])
    fn = expand_derivatives if route == "expand_derivatives" else (lambda x: apply_derivatives(apply_algebra_lowering(x)))
    worlds = oracle.worlds_for(rng, cell, gdim, "cell", cplx, n=3)
    manifold = gdim > E.TD[cell]
    verdict, out = check_pass(ctx, "C03", "expand_derivatives", e, fn, worlds, extra_key="/manifold" if manifold else "")
    if verdict == "held":
        ctx.count("nontrivial")
        ctx.add_distinct((skeleton(e, 3), cell, gdim, cplx))
        ctx.sample({"outer_ops": ops, "cell": [cell, gdim], "complex": cplx, "input": str(e)[:240]})
        bad = derivative_targets_ok(out)
        ctx.count("structure_checks")
        if bad:
            ctx.violation(f"C03/expand_derivatives/derivative-of-non-terminal-left/{bad[0]}", f"output still differentiates non-terminals: {bad[:4]}", {"input": str(e)[:800], "output": str(out)[:800]})


# ---- additional workload (thorough tier): the repository's own test-suite with this property's passes monitored
EXTRA_JOBS = {"thorough": ["suite"]}
SUITE_TARGETS = ['apply_derivatives']


def extra_suite(ctx):
    """Every call the repository's tests make to the monitored passes is judged by the same value oracle (vf/suitemon.py)."""
    from ..suite_driver import run_suite

    run_suite(ctx, SUITE_TARGETS, "C03")
