"""C16 - lhs / rhs / system / functional / action / adjoint / energy_norm respect the algebra of forms.

Events: the real `lhs(F)`, `rhs(F)`, `system(F)`, `functional(F)`, `action(F[, f])`, `adjoint(a[, (u2, v2)])`,
`energy_norm(a[, f])` on generated 0/1/2-forms: sums of bilinear a(u,v), linear L(v) and argument-free M terms over
several integrals (cell / exterior facet / interior facet with restrictions, subdomain ids), terms that are only
*affine* in the trial function ((u+f) substituted for u, also through variables, list tensors, component tensors,
divisions, conj; bilinear + linear (+ constant) terms under the Sum nodes of ONE integrand), Gateaux-derivative pieces,
mixed elements split with `ufl.split`, and arguments living in `MixedFunctionSpace` parts (diagonal and off-diagonal
blocks, equal and different part spaces).  Cases 0..7 are fixed textbook inputs (the lhs/rhs docstring example and
minimal MixedFunctionSpace forms), the rest is generated.  A call that raises is counted as rejected, never as a violation.

Oracle: the *form value*  Phi(F)[fields] = sum over the integrals of F of  w(subdomain id) * S(integrand)  in one fixed
world per integral type (vf/phi.py), with every Argument replaced by a field through `world.subst`; arguments are looked
up by UFL equality, i.e. by (function space, number, part).  Phi is a fixed linear functional of the integrands, so
identities between forms become identities between numbers.  With P(p, q) = Phi(F)[test := p, trial := q]:

  bilinear part  A(p,q) = P(p,q) - P(p,0) - P(0,q) + P(0,0),   linear part  L(p) = P(p,0) - P(0,0),   M = P(0,0)

  (a) Phi(lhs F)[p,q] = A(p,q);  Phi(rhs F)[p,q'] = -L(p) (so rhs contains no trial function);  Phi(functional F) = M;
      when M = 0:  Phi(F) = Phi(lhs F) - Phi(rhs F);  lhs F is (real-)bilinear, rhs F (real-)linear in the fields;
      system(F) gives the same two values.  Forms with one argument: lhs = 0, rhs = -(linear part); none: lhs = rhs = 0.
      Only asserted when F is, numerically, affine in each argument and has no term in the trial function alone.
  (b) Phi(action(F, f)) = Phi(F)[arguments with the highest number := f (per part)], remaining arguments := same fields;
      an automatically created coefficient is identified among result.coefficients() by its function space.
  (c) Phi(adjoint a)[Argument(V, n1, part_v) := p, Argument(U, n0, part_u) := q] = conj(Phi(a)[v := p, u := q]) for
      v in V (number 0), u in U (number 1): the two arguments exchange their *numbers* (n0 = 0, n1 = 1, or the numbers of
      the given reordered_arguments), keep their spaces (and their parts: part k of the new test function is the
      field that was part k of the trial function), and the value is conjugated (formoperators.adjoint docstring).
  (d) Phi(energy_norm(a, f)) = Phi(a)[v := f, u := f].
"""

import itertools

import ufl
from ufl import action, adjoint, energy_norm, functional, lhs, rhs, system

from .. import elements as E
from .. import oracle
from ..gen import Gen, Universe
from ..passcheck import count_verdicts, node_classes, safe_str, skeleton
from ..phi import WorldSet, lincomb, phi
from ..seval import CB, Result

LEVEL = "exploration"
ENGINE = "phi"
TECHNIQUE = (
    "differential runtime monitoring of lhs/rhs/system/functional/action/adjoint/energy_norm: form values "
    "(weighted point sums of integrands in one world per integral type) under field substitution of the arguments; "
    "bilinear / linear / constant parts of the input obtained by polarisation"
)
LEVEL_TEXT = (
    "The real form transformations are run on generated 0/1/2-forms (several integral types and subdomains, affine "
    "expansions, variables, list/component tensors, derivatives, mixed elements, MixedFunctionSpace parts, real and complex "
    "mode); the value of each result with its arguments replaced by random polynomial fields is compared in an independent "
    "interpreter (50-digit confirmation) with the bilinear / linear / argument-free part of the input's value obtained by "
    "polarisation, resp. with the input's value under the substitution that action / adjoint / energy_norm promise."
)
LEVEL_NOTE = (
    "trusted: vf/seval.py (incl. terminal substitution), vf/world.py, vf/phi.py; single mesh, affine simplex cells, "
    "degree <= 3, at most two arguments (numbers 0 and 1), at most 3 parts; linearity is tested with real scalars"
)
RULE = (
    "case i < 8: fixed small forms; case i = (family plain / split / parts, list of term kinds a, L, M, aL (affine in u), "
    "sum (mixed arities in one integrand), gateaux, zero, integral types and subdomains, cell, real/complex) from the "
    "seeded generator; distinct = (family, term kinds, operations that held, "
    "cell, mode, skeleton depth 2 of the first integrand); non-trivial = the operation returned and the compared "
    "reference value is non-zero in the first world"
)
ASSUMPTIONS = [
    "lhs(F) is the part of F that is bilinear in (test, trial), rhs(F) minus the part linear in the test function alone, "
    "functional(F) the argument-free part (docstrings of formoperators.lhs/rhs/functional); for F = a + L this is the "
    "unique decomposition F = lhs - rhs with lhs bilinear and rhs linear",
    "adjoint: test and trial function exchange their numbers and keep their function spaces and parts; the value is "
    "conjugated (formoperators.adjoint docstring: 'changing the ordering (count) of the test and trial functions, and "
    "taking the complex conjugate of the result')",
    "a returned integer 0 (MixedFunctionSpace code path) is read as the zero form",
    "arguments are identified by UFL equality = (function space, number, part)",
    "in real mode all field data are real, conj is the identity",
]
BUDGET = {"quick": 55, "thorough": 440}
NCASES = {"quick": 1600, "thorough": 16000}
CASE_TIMEOUT = 40.0
# a full run (quiet machine: ~0.06 s per case) observes per case about: case_held .97, held_lhs/rhs/functional 1.0,
# held_lhs_minus_rhs .73, held_action 1.16, held_adjoint .45, held_energy_norm .19, nontrivial 4.1,
# nontrivial_adjoint_complex .14; the floors are ~35 % of that (time-truncated runs on a loaded machine still pass)
FLOORS = {
    "quick": {"case_held": 540, "held_lhs": 555, "held_rhs": 555, "held_functional": 555, "held_lhs_minus_rhs": 400,
              "held_action": 650, "held_adjoint": 250, "held_energy_norm": 100, "nontrivial": 2300, "nontrivial_adjoint_complex": 70},
    "thorough": {"case_held": 5400, "held_lhs": 5500, "held_rhs": 5500, "held_functional": 5500, "held_lhs_minus_rhs": 4000,
                 "held_action": 6500, "held_adjoint": 2500, "held_energy_norm": 1000, "nontrivial": 23000,
                 "nontrivial_adjoint_complex": 700},
}
COVER_FLOORS = {
    "quick": {"families_held": ["plain", "split", "parts"], "itypes_held": ["cell", "exterior_facet", "interior_facet"]},
    "thorough": {"families_held": ["plain", "split", "parts"], "itypes_held": ["cell", "exterior_facet", "interior_facet"]},
}
CELLS = [("interval", 1), ("interval", 2), ("triangle", 2), ("triangle", 2), ("triangle", 3), ("tetrahedron", 3)]
SID_WEIGHT = {"everywhere": 1.0, "otherwise": 1.0, 1: 1.5, 2: -0.75, 3: 2.25}
NW = 2  # world sets per case (both must agree for "held")


# --------------------------------------------------------------------------------------- form values


def is_zero_number(x):
    return isinstance(x, (int, float)) and not isinstance(x, bool) and x == 0


def fval(form, ws, B, sub):
    """Form value with subdomain weights; `form` may be a Form or the number 0."""
    if is_zero_number(form):
        return lincomb(B, [])
    groups = {}
    for itg in form.integrals():
        sid = itg.subdomain_id()
        if isinstance(sid, tuple):
            for k in sid:
                groups.setdefault(k, []).append(itg)
        else:
            groups.setdefault(sid, []).append(itg)
    terms = []
    for sid, itgs in groups.items():
        terms.append((SID_WEIGHT.get(sid, 3.0), phi(itgs, ws, B, subst=sub)))
    return lincomb(B, terms)


def conj_result(r, B):
    return Result(B.conj(r.arr), 0, (), r.flags, r.maxabs)


class Fields:
    """Random fields (harness coefficients) standing for arguments: field(k, arg)."""

    def __init__(self):
        self.f = {}

    def get(self, k, arg):
        key = (k, arg)
        if key not in self.f:
            self.f[key] = ufl.Coefficient(arg.ufl_function_space())
        return self.f[key]


def lin(fields, args, spec):
    """Substitution entries: every argument in args := sum_k c_k * field(k, arg) for spec = [(c, k), ...]."""
    return {a: ("lin", [(c, fields.get(k, a)) for c, k in spec]) for a in args}


class Cache:
    """Values of one form under named substitutions, per (world set, backend)."""

    def __init__(self, form, subs):
        self.form = form
        self.subs = subs
        self.c = {}

    def __call__(self, name, ws, B):
        key = (name, id(ws), B.name)
        if key not in self.c:
            self.c[key] = fval(self.form, ws, B, self.subs[name])
        return self.c[key]


# --------------------------------------------------------------------------------------- verdicts


class Outcome:
    def __init__(self, verdict, vs):
        self.verdict = verdict
        self.vs = vs

    @property
    def bad(self):
        for v in self.vs:
            if v.kind in ("disagree", "output-ambiguous"):
                return v
        return None


def judge(ctx, expected, observed, wss):
    """expected(ws, B) / observed(ws, B) -> Result.  Three-valued verdict over the world sets."""
    vs = []
    for ws in wss:
        try:
            vs.append(oracle.compare_once(expected, observed, ws))
        except Exception as ex:  # the interpreter itself failed (e.g. on a malformed result): undecided, and counted
            ctx.count("oracle_error")
            ctx.covered("oracle_errors", type(ex).__name__ + ": " + str(ex)[:80])
            vs.append(oracle.Verdict("inconclusive", why="oracle-error: " + type(ex).__name__))
    count_verdicts(ctx, vs)
    kinds = [v.kind for v in vs]
    if any(k in ("input-structure", "input-ambiguous") for k in kinds):
        return Outcome("skipped", vs)
    verdict = oracle.decide(vs)
    if "output-ambiguous" in kinds:
        verdict = "violated"
    return Outcome(verdict, vs)


def nonzero(fn, ws):
    try:
        r = fn(ws, CB)
        return abs(complex(r.arr)) > 1e-9
    except Exception:
        return False


# --------------------------------------------------------------------------------------- generator


class Spec:
    def __init__(self):
        self.family = None
        self.cell = None
        self.gdim = None
        self.cplx = False
        self.pieces = []  # (kind, itype, sid, Form)
        self.F = None
        self.a_form = None  # sum of the purely bilinear pieces
        self.note = {}

    def kinds(self):
        return tuple(sorted(p[0] for p in self.pieces))


class Builder:
    def __init__(self, rng, cell, gdim, cplx):
        self.rng = rng
        self.cell, self.gdim, self.cplx = cell, gdim, cplx
        self.base = Universe(rng, cell, gdim, "cell", cplx)
        self.unis = {"cell": self.base}
        self.profile = dict(cplx=cplx, deriv=rng.choice([0, 1, 1, 2]), cond=rng.random() < 0.3, math=rng.random() < 0.4,
                            geom=rng.random() < 0.4)

    def uni(self, it):
        U = self.unis.get(it)
        if U is None:
            b = self.base
            U = Universe(self.rng, self.cell, self.gdim, it, self.cplx)
            U.mesh, U.spaces, U._coefs, U._consts, U._args, U.x = b.mesh, b.spaces, b._coefs, b._consts, b._args, b.x
            U.idx = b.idx
            self.unis[it] = U
        return U

    def gen(self, it):
        return Gen(self.uni(it), self.rng, **self.profile)

    def itype(self):
        return self.rng.choice(["cell", "cell", "exterior_facet", "interior_facet"])

    def sid(self):
        return self.rng.choice([None, None, None, 1, 2])

    def measure(self, it, sid):
        md = {"quadrature_degree": 2} if self.rng.random() < 0.1 else None
        return self.uni(it).measure(sid, md)

    def depth(self):
        return self.rng.choice([1, 1, 2])


def affine_image(rng, G, u, fu, cplx):
    """An expression that is affine (not linear) in the argument-like expression u, written in some disguise."""
    n_choices = ["sum", "sum", "variable", "scaled", "division", "nested"]
    if len(u.ufl_shape) == 1 and u.ufl_shape[0] <= 4:
        n_choices += ["list", "component_tensor", "list_zero"]
    if cplx:
        n_choices += ["conjconj"]
    k = rng.choice(n_choices)
    if k == "sum":
        return k, u + fu
    if k == "variable":
        return k, ufl.variable(u + fu)
    if k == "scaled":
        return k, 2 * u - fu
    if k == "division":
        c = G.U.const((), 0)
        return k, (fu + u) / (3 + c * c if not cplx else 3 + ufl.real(c * ufl.conj(c)))
    if k == "nested":
        return k, (u + 0.5 * fu) + (fu - 3 * u)
    if k == "list":
        return k, ufl.as_vector([u[j] + fu[j] for j in range(u.ufl_shape[0])])
    if k == "list_zero":
        n = u.ufl_shape[0]
        return k, ufl.as_vector([u[j] + fu[j] for j in range(n - 1)] + [ufl.as_ufl(0)]) if n > 1 else ufl.as_vector([u[0] - fu[0]])
    if k == "component_tensor":
        i = ufl.Index()
        return k, ufl.as_tensor(u[i] + 2 * fu[i], (i,))
    if k == "conjconj":
        return k, ufl.conj(ufl.conj(u) + ufl.conj(fu))
    raise ValueError(k)


def classic_bilinear(rng, U, u, v, rmode):
    """Textbook bilinear integrands for arguments of equal shape (None if not applicable)."""
    if tuple(u.ufl_shape) != tuple(v.ufl_shape):
        return None
    interior = rmode == "need"
    n = ufl.FacetNormal(U.mesh)
    c = U.coef("P1", 0) if "P1" in U.spaces else None
    opts = ["mass", "stiffness", "reaction-diffusion"]
    if len(u.ufl_shape) == 1 and u.ufl_shape[0] == U.gdim:
        opts += ["divdiv", "convect"]
    if interior:
        opts += ["jump", "avg", "ip"]
    k = rng.choice(opts)
    R = (lambda e: e(rng.choice("+-"))) if interior else (lambda e: e)
    if k == "mass":
        return k, ufl.inner(R(u), R(v))
    if k == "stiffness":
        return k, ufl.inner(R(ufl.grad(u)), R(ufl.grad(v)))
    if k == "reaction-diffusion":
        return k, R(c) * ufl.inner(R(u), R(v)) + ufl.inner(R(ufl.grad(u)), R(ufl.grad(v)))
    if k == "divdiv":
        return k, ufl.inner(R(ufl.div(u)), R(ufl.div(v)))
    if k == "convect":
        return k, ufl.inner(R(ufl.dot(ufl.grad(u), U.x)), R(v))
    if k == "jump":
        return k, ufl.inner(ufl.jump(u), ufl.jump(v))
    if k == "avg":
        return k, ufl.inner(ufl.avg(u), ufl.avg(v)) * ufl.avg(c)
    if k == "ip":
        return k, ufl.inner(ufl.avg(ufl.grad(u)), ufl.outer(ufl.jump(v), n("+"))) if u.ufl_shape else ufl.inner(
            ufl.avg(ufl.grad(u)), ufl.jump(v) * n("+"))
    raise ValueError(k)


def term(G, rng, depth, *lins):
    """coefficient expression times factors linear in the given argument(-like) expressions."""
    t = G.expr((), depth)
    for x in lins:
        t = t * G.linear_in(x, max(depth - 1, 0))
    return t


KIND_MENU = [
    ["a"], ["a"], ["a", "a"], ["a", "L"], ["a", "L"], ["a", "a", "L", "L"], ["aL"], ["aL"], ["aL", "a"], ["aL", "L"],
    ["a", "L", "M"], ["aL", "M"], ["a", "M"], ["L"], ["L", "L"], ["L", "M"], ["M"], ["Lu"], ["a", "L", "zero"], ["gat"],
    ["sum"], ["sum"], ["sum", "a"], ["sum", "L"], ["sum", "M"],
]


def build(rng, family, cell, gdim, cplx):
    """Returns a Spec.  All terms of one form share the same Argument objects."""
    bd = Builder(rng, cell, gdim, cplx)
    sp = Spec()
    sp.family, sp.cell, sp.gdim, sp.cplx = family, cell, gdim, cplx
    base = bd.base
    names = sorted(base.spaces)
    kinds = list(rng.choice(KIND_MENU))
    if family == "plain":
        vname = rng.choice(names)
        uname = vname if rng.random() < 0.5 else rng.choice(names)
        v = base.arg(vname, 0)
        u = base.arg(uname, 1)
        vparts, uparts = [v], [u]
        sp.note["spaces"] = [vname, uname]
    elif family == "split":
        wname = rng.choice([n for n in names if n.startswith("Mix")])
        v = base.arg(wname, 0)
        u = base.arg(wname, 1)
        vparts, uparts = list(ufl.split(v)), list(ufl.split(u))
        sp.note["spaces"] = [wname, wname]
    else:
        nparts = rng.choice([2, 2, 3])
        pn = [rng.choice(names) for _ in range(nparts)]
        if rng.random() < 0.3:
            pn[1] = pn[0]
        W = ufl.MixedFunctionSpace(*[base.spaces[n] for n in pn])
        vparts, uparts = list(ufl.TestFunctions(W)), list(ufl.TrialFunctions(W))
        sp.note["spaces"] = pn
        sp.note["diag_only"] = rng.random() < 0.45
        kinds = [k for k in kinds if k not in ("Lu", "gat")] or ["a", "L"]
    if "gat" in kinds and not (family == "plain" and sp.note["spaces"][0] == sp.note["spaces"][1]):
        kinds = ["a", "L"]
    sp.note["blocks"] = []
    a_pieces = []
    for kind in kinds:
        it = bd.itype()
        G = bd.gen(it)
        U = G.U
        d = bd.depth()
        rmode = "need" if U.interior else "free"
        i = rng.randrange(len(vparts))
        j = i if sp.note.get("diag_only") else rng.randrange(len(uparts))
        vi, uj = vparts[i], uparts[j]
        detail = kind
        if kind in ("a", "aL"):
            integrand = None
            if family == "plain" and rng.random() < 0.45:
                integrand, _ = G.integrand(2, d, space_names=sp.note["spaces"])
                detail = kind + ":gen"
            elif rng.random() < 0.35:
                cb = classic_bilinear(rng, U, uj, vi, rmode)
                if cb is not None:
                    detail = kind + ":" + cb[0]
                    integrand = cb[1] * G.expr((), 0) if rng.random() < 0.5 else cb[1]
            if integrand is None:
                integrand = term(G, rng, d, vi, uj)
                if rng.random() < 0.3:
                    integrand = integrand + term(G, rng, d, vi, uj)
                detail = kind + ":term"
            if rng.random() < 0.12:
                c_ = U.const((), 0)
                integrand = integrand / (3 + (c_ * c_ if not cplx else ufl.real(c_ * ufl.conj(c_))))
                detail += "/div"
            if cplx and rng.random() < 0.15:
                wrap = rng.choice(["conj", "real", "imag"])
                integrand = getattr(ufl, wrap)(integrand)
                detail += "/" + wrap
            if kind == "aL":
                # u appears through an affine image; for sub-functions of a mixed argument the whole argument is replaced
                utop = uj if family != "split" else base.arg(sp.note["spaces"][1], 1)
                fu = ufl.Coefficient(utop.ufl_function_space())
                how, img = affine_image(rng, G, utop, fu, cplx)
                integrand = ufl.replace(integrand, {utop: img})
                detail += "/" + how
                if rng.random() < 0.25:
                    vtop = vi if family != "split" else base.arg(sp.note["spaces"][0], 0)
                    integrand = ufl.replace(integrand, {vtop: 3 * vtop})
                    detail += "/3v"
            if kind == "a":
                sp.note["blocks"].append((i, j))  # blocks of a_form (the purely bilinear pieces)
        elif kind == "sum":
            # terms of different arity under Sum nodes of ONE integrand, in several associations
            ta, tl = term(G, rng, d, vi, uj), term(G, rng, d, vi)
            shape = rng.choice(["a+L", "L+a", "a-L", "(a+L)*c", "a+(L+a)", "(L+a)+L", "a+L+M", "var(a+L)", "(a+L)/c", "list[a,L]"])
            c = G.expr((), 1)
            if shape == "a+L":
                integrand = ta + tl
            elif shape == "L+a":
                integrand = tl + ta
            elif shape == "a-L":
                integrand = ta - tl
            elif shape == "(a+L)*c":
                integrand = (ta + tl) * c
            elif shape == "a+(L+a)":
                integrand = ta + (tl + term(G, rng, d, vi, uj))
            elif shape == "(L+a)+L":
                integrand = (tl + ta) + term(G, rng, d, vi)
            elif shape == "a+L+M":
                integrand = ta + tl + G.expr((), d)
            elif shape == "var(a+L)":
                integrand = ufl.variable(ta + tl) * c
            elif shape == "list[a,L]":
                # components providing different argument sets: the part extraction refuses this (rejected) or must be right
                comps = [ta, tl] if rng.random() < 0.5 else [tl, ta]
                integrand = ufl.dot(ufl.as_vector(comps), ufl.as_vector([c, G.expr((), 0)]))
            else:
                c0 = U.const((), 0)
                integrand = (ta + tl) / (3 + (c0 * c0 if not cplx else ufl.real(c0 * ufl.conj(c0))))
            detail = "sum:" + shape
        elif kind == "L":
            integrand = term(G, rng, d, vi)
            if family == "plain" and rng.random() < 0.4:
                integrand, _ = G.integrand(1, d, space_names=sp.note["spaces"])
        elif kind == "Lu":
            integrand = term(G, rng, d, uj)
        elif kind == "M":
            integrand = G.expr((), d + 1)
        elif kind == "zero":
            c = U.const((), 1)
            integrand = (c - c) * term(G, rng, 1, vi, uj) + 0 * term(G, rng, 1, vi)
        elif kind == "gat":
            # E(w) functional, L = dE/dw[v], a = d2E/dw2[u, v]  (v, u live in the space of w)
            w = ufl.Coefficient(uj.ufl_function_space())
            G.extra = [w]
            G.extra_prob = 0.6
            dens = G.expr((), 2) * G.expr((), 1) + ufl.inner(w, w) if rmode != "need" else G.expr((), 2) * G.expr((), 1)
            Eform = dens * bd.measure(it, None)
            Lf = ufl.derivative(Eform, w, vi)
            piece = ufl.derivative(Lf, w, uj)
            if rng.random() < 0.5:
                piece = piece + Lf
            sp.pieces.append((kind, it, None, piece))
            continue
        else:
            raise ValueError(kind)
        sid = bd.sid()
        piece = integrand * bd.measure(it, sid)
        sp.pieces.append((detail, it, "everywhere" if sid is None else sid, piece))
        if kind == "a":
            a_pieces.append(piece)
    F = None
    for _, _, _, piece in sp.pieces:
        F = piece if F is None else F + piece
    sp.F = F
    if a_pieces:
        a = a_pieces[0]
        for p_ in a_pieces[1:]:
            a = a + p_
        sp.a_form = a
    sp.vparts, sp.uparts = vparts, uparts
    return sp


# --------------------------------------------------------------------------------------- the monitor


def grouped_arguments(form):
    """(lower-numbered arguments, highest-numbered arguments) of a form; one group if only one number occurs."""
    args = form.arguments()
    numbers = sorted({a.number() for a in args})
    if len(numbers) > 2:
        return None
    if len(numbers) == 2:
        return [a for a in args if a.number() == numbers[0]], [a for a in args if a.number() == numbers[1]]
    return list(args), []


def call(ctx, name, fn):
    try:
        out = fn()
    except Exception as ex:
        ctx.count("rejected_" + name)
        ctx.covered("rejected_with", name + ": " + type(ex).__name__ + ": " + str(ex)[:70])
        return False, None
    ctx.count("returned_" + name)
    if is_zero_number(out):
        ctx.covered("returned_number_zero", name)
    elif not hasattr(out, "integrals") and not isinstance(out, tuple):
        ctx.count("returned_other_type_" + name)
        ctx.covered("returned_other_type", name + ": " + type(out).__name__)
        return False, None
    return True, out


def report(ctx, sp, op, sub, out_c, what, result, expected_text, extra=None):
    bad = out_c.bad
    key = f"C16/{op}/{sp.family}/{sub}"
    if bad is not None and bad.kind == "output-ambiguous":
        key += "/output-ambiguous"
    ctx.count("reports_" + op.replace("-", "_"))
    detail = {
        "term_kinds": shape_key(sp),
        "form": safe_str(sp.F, 1500),
        "pieces": [[k, it, str(sid)] for k, it, sid, _ in sp.pieces],
        "result": safe_str(result, 1500),
        "expected": expected_text,
        "cell": [sp.cell, sp.gdim],
        "complex": sp.cplx,
        "spaces": sp.note.get("spaces"),
        "verdicts": [repr(v) for v in out_c.vs],
    }
    if extra:
        detail.update(extra)
    ctx.violation(key, f"{what}: {bad.kind if bad else '?'} (rel. err {bad.err if bad else None}, {bad.why if bad else None})", detail)


def shape_key(sp):
    ks = sorted({p[0].split(":")[0].split("/")[0] for p in sp.pieces})
    return "+".join(ks)


def coarse_key(sp):
    """Mechanism class of the input for violation keys: are there terms that are only affine in the trial function?"""
    ks = {p[0].split(":")[0].split("/")[0] for p in sp.pieces}
    if "aL" in ks or "sum" in ks:
        return "affine-terms"
    if "gat" in ks:
        return "gateaux-terms"
    return "separate-terms"


def check_parts(ctx, sp, F, wss, fields, tag=""):
    """(a): lhs, rhs, system, functional of F.  Returns dict op -> verdict."""
    res = {}
    groups = grouped_arguments(F)
    if groups is None:
        ctx.count("skipped_more_than_two_numbers")
        return res
    vargs, uargs = groups
    subs = {
        "11": {**lin(fields, vargs, [(1, 0)]), **lin(fields, uargs, [(1, 0)])},
        "10": {**lin(fields, vargs, [(1, 0)]), **lin(fields, uargs, [])},
        "01": {**lin(fields, vargs, []), **lin(fields, uargs, [(1, 0)])},
        "00": {**lin(fields, vargs, []), **lin(fields, uargs, [])},
        "21": {**lin(fields, vargs, [(2, 0)]), **lin(fields, uargs, [(1, 0)])},
        "12": {**lin(fields, vargs, [(1, 0)]), **lin(fields, uargs, [(2, 0)])},
        # for the linearity checks of the results
        "1b": {**lin(fields, vargs, [(1, 0)]), **lin(fields, uargs, [(1, 1)])},
        "b1": {**lin(fields, vargs, [(1, 1)]), **lin(fields, uargs, [(1, 0)])},
        "bb": {**lin(fields, vargs, [(1, 1)]), **lin(fields, uargs, [(1, 1)])},
        "mix": {**lin(fields, vargs, [(1.5, 0), (-0.75, 1)]), **lin(fields, uargs, [(-2, 0), (0.5, 1)])},
    }
    PF = Cache(F, subs)
    two = bool(uargs)

    # ---- scope guard (fast arithmetic only): F affine in each argument group, nothing in the trial function alone
    in_scope = True
    try:
        ws0 = wss[0]
        p11, p10, p01, p00 = (complex(PF(k, ws0, CB).arr) for k in ("11", "10", "01", "00"))
        scale = max(1.0, abs(p11), abs(p10), abs(p01), abs(p00), PF("11", ws0, CB).maxabs * 1e-3)
        if vargs:
            p21 = complex(PF("21", ws0, CB).arr)
            if abs(p21 - 2 * p11 + p01) > 1e-7 * max(scale, abs(p21)):
                in_scope = False
        if two:
            p12 = complex(PF("12", ws0, CB).arr)
            if abs(p12 - 2 * p11 + p10) > 1e-7 * max(scale, abs(p12)):
                in_scope = False
            if abs(p01 - p00) > 1e-7 * scale:
                in_scope = False
                ctx.count("scope_trial_only_terms")
    except (oracle.Unsupported, oracle.Ambiguous, oracle.StructureMismatch, oracle.IllConditioned, ZeroDivisionError, OverflowError,
            FloatingPointError) as ex:
        ctx.count("skipped_input_not_evaluable")
        ctx.covered("input_not_evaluable", type(ex).__name__ + ": " + str(ex)[:60])
        return res
    if not in_scope:
        ctx.count("skipped_out_of_scope" + tag)
        return res
    ctx.count("in_scope" + tag)

    def A(ws, B):
        if not two:
            return lincomb(B, [])
        return lincomb(B, [(1, PF("11", ws, B)), (-1, PF("10", ws, B)), (-1, PF("01", ws, B)), (1, PF("00", ws, B))])

    def minusL(ws, B):
        if not vargs:
            return lincomb(B, [])
        return lincomb(B, [(-1, PF("10", ws, B)), (1, PF("00", ws, B))])

    def M(ws, B):
        return PF("00", ws, B)

    has_M = any(k.split(":")[0] in ("M", "gat") or k == "sum:a+L+M" for k in sp.kinds()) or any(nonzero(M, ws) for ws in wss)
    skey = coarse_key(sp) + tag
    ok_l, l = call(ctx, "lhs", lambda: lhs(F))
    ok_r, r = call(ctx, "rhs", lambda: rhs(F))
    ok_f, fn = call(ctx, "functional", lambda: functional(F))
    ok_s, s = call(ctx, "system", lambda: system(F))
    if ok_s and not (isinstance(s, tuple) and len(s) == 2):
        ctx.violation(f"C16/system/{sp.family}/not-a-pair", "system(F) did not return a pair", {"form": safe_str(sp.F, 800)})
        ok_s = False

    def run(op, result, expected, sub_name="11", nontrivial_fn=None):
        CR = Cache(result, subs)
        o = judge(ctx, expected, lambda ws, B: CR(sub_name, ws, B), wss)
        res[op] = o.verdict
        ctx.count(f"{o.verdict}_{op}")
        if o.verdict == "held" and nonzero(nontrivial_fn or expected, wss[0]):
            ctx.count("nontrivial")
            ctx.count("nontrivial_" + op)
        return o, CR

    if ok_l:
        o, CL = run("lhs", l, A)
        if o.verdict == "violated":
            report(ctx, sp, "lhs", skey, o, "Phi(lhs(F)) differs from the bilinear part of Phi(F)", l,
                   "P(p,q) - P(p,0) - P(0,q) + P(0,0)" if two else "0 (fewer than two arguments)")
        elif o.verdict == "held" and two:
            # bilinearity of the result in the fields (real scalars)
            def combo(ws, B):
                return lincomb(B, [(1.5 * -2, CL("11", ws, B)), (1.5 * 0.5, CL("1b", ws, B)), (-0.75 * -2, CL("b1", ws, B)),
                                   (-0.75 * 0.5, CL("bb", ws, B))])

            o2 = judge(ctx, combo, lambda ws, B: CL("mix", ws, B), wss)
            res["lhs_bilinear"] = o2.verdict
            ctx.count(f"{o2.verdict}_lhs_bilinear")
            if o2.verdict == "violated":
                report(ctx, sp, "lhs-bilinear", skey, o2, "lhs(F) is not bilinear in the argument fields", l,
                       "sum_ij a_i b_j Phi(lhs)[p_i, q_j]")
    if ok_r:
        # evaluated with another trial field than the reference side: rhs must not depend on the trial function
        o, CRh = run("rhs", r, minusL, sub_name="1b")
        if o.verdict == "violated":
            report(ctx, sp, "rhs", skey, o, "Phi(rhs(F)) differs from minus the linear part of Phi(F)", r, "-(P(p,0) - P(0,0))")
        elif o.verdict == "held" and vargs:
            def combo_r(ws, B):
                return lincomb(B, [(1.5, CRh("10", ws, B)), (-0.75, CRh("bb", ws, B))])

            o2 = judge(ctx, combo_r, lambda ws, B: CRh("mix", ws, B), wss)
            res["rhs_linear"] = o2.verdict
            ctx.count(f"{o2.verdict}_rhs_linear")
            if o2.verdict == "violated":
                report(ctx, sp, "rhs-linear", skey, o2, "rhs(F) is not linear in the test field or depends on the trial field", r,
                       "a1 Phi(rhs)[p1, 0] + a2 Phi(rhs)[p2, q2]")
    if ok_f:
        o, _ = run("functional", fn, M)
        if o.verdict == "violated":
            report(ctx, sp, "functional", skey, o, "Phi(functional(F)) differs from the argument-free part of Phi(F)", fn, "P(0,0)")
    if ok_l and ok_r and not has_M:
        CL2, CR2 = Cache(l, subs), Cache(r, subs)
        o = judge(ctx, lambda ws, B: PF("11", ws, B), lambda ws, B: lincomb(B, [(1, CL2("11", ws, B)), (-1, CR2("11", ws, B))]), wss)
        res["lhs_minus_rhs"] = o.verdict
        ctx.count(f"{o.verdict}_lhs_minus_rhs")
        if o.verdict == "held" and nonzero(lambda ws, B: PF("11", ws, B), wss[0]):
            ctx.count("nontrivial")
        if o.verdict == "violated":
            report(ctx, sp, "lhs-minus-rhs", skey, o, "Phi(F) != Phi(lhs(F)) - Phi(rhs(F)) for F affine in its last argument", l - r if not (
                is_zero_number(l) or is_zero_number(r)) else (l, r), "P(p,q)")
    if ok_s:
        CS0, CS1 = Cache(s[0], subs), Cache(s[1], subs)
        o = judge(ctx, A, lambda ws, B: CS0("11", ws, B), wss)
        o1 = judge(ctx, minusL, lambda ws, B: CS1("1b", ws, B), wss)
        verdict = "violated" if "violated" in (o.verdict, o1.verdict) else (o.verdict if o.verdict == o1.verdict else "inconclusive")
        res["system"] = verdict
        ctx.count(f"{verdict}_system")
        if verdict == "violated":
            report(ctx, sp, "system", skey, o if o.verdict == "violated" else o1, "system(F) differs from (bilinear part, minus linear part)",
                   s[0] if o.verdict == "violated" else s[1], "(A, -L)")
    return res


def check_action(ctx, sp, F, wss, fields, rng):
    groups = grouped_arguments(F)
    if groups is None:
        return None
    lo, hi = groups
    if not hi:
        lo, hi = [], lo
    if not hi:
        # no arguments at all: action must raise or return something equal in value; observed: raises
        ok, out = call(ctx, "action_on_functional", lambda: action(F, None))
        return None
    mode = rng.choice(["given", "given", "given", "auto", "other-space"])
    expanded = rng.random() < 0.25
    parts = any(a.part() is not None for a in hi)
    given = None
    if mode != "auto":
        if parts:
            npart = max(a.part() for a in F.arguments() if a.part() is not None) + 1
            spaces = {a.part(): a.ufl_function_space() for a in hi}
            anyspace = hi[0].ufl_function_space()
            given = [ufl.Coefficient(spaces.get(k, anyspace)) for k in range(npart)]
            image = {a: given[a.part()] for a in hi}
        else:
            space = hi[0].ufl_function_space()
            if mode == "other-space":
                same_shape = [s for s in _all_spaces(F) if tuple(s.value_shape) == tuple(space.value_shape)]
                space = rng.choice(same_shape) if same_shape else space
            given = ufl.Coefficient(space)
            image = {hi[0]: given}
    kw = {"derivatives_expanded": True} if expanded else {}
    name = "action" if mode != "auto" else "action_auto"
    ok, out = call(ctx, name, lambda: action(F, given, **kw))
    if not ok:
        return None
    if is_zero_number(out):
        return None
    candidates = [image] if given is not None else None
    if given is None:
        old = set(F.coefficients())
        new = [c for c in out.coefficients() if c not in old]
        # per replaced argument: the new coefficients living in its space; an argument whose image vanished from
        # the result (e.g. grad of a piecewise constant) is represented by a fresh field (the value cannot depend on it)
        options = []
        for a_ in hi:
            m = [c for c in new if c.ufl_function_space() == a_.ufl_function_space()]
            options.append(m + [ufl.Coefficient(a_.ufl_function_space())])
        combos = [c for c in itertools.islice(itertools.product(*options), 64) if len(set(c)) == len(c)]
        combos.sort(key=lambda c: sum(1 for x in c if x not in new))  # prefer assignments that use the new coefficients
        cands = [dict(zip(hi, c)) for c in combos[:12]]
        unmatched = [c for c in new if not any(c.ufl_function_space() == a_.ufl_function_space() for a_ in hi)]
        if unmatched or not cands:
            ctx.count("action_auto_new_coefficient_not_identified")
            ctx.count("violated_action")
            why = "replaced-argument-only-in-vanishing-terms" if independent_of(F, lo, hi, wss, fields) else "auto-coefficient-not-in-argument-space"
            ctx.violation(f"C16/action/{sp.family}/{why}",
                          "action(F) introduced a new coefficient that is in none of the replaced arguments' spaces",
                          {"form": safe_str(F, 800), "result": safe_str(out, 800), "F.arguments()": [str(x) for x in F.arguments()],
                           "new coefficients": [repr(c)[:200] for c in new], "mode": mode, "derivatives_expanded": expanded})
            return "violated"
        candidates = cands
    sub_rest = lin(fields, lo, [(1, 0)])
    last = None
    for image in candidates:
        sub_in = dict(sub_rest)
        sub_in.update({a: ("expr", c) for a, c in image.items()})
        CF = Cache(F, {"x": sub_in})
        CO = Cache(out, {"x": sub_rest})
        o = judge(ctx, lambda ws, B: CF("x", ws, B), lambda ws, B: CO("x", ws, B), wss)
        last = (o, CF)
        if o.verdict != "violated":
            break
    o, CF = last
    ctx.count(f"{o.verdict}_action")
    if o.verdict == "held":
        ctx.covered("action_modes_held", mode + ("+derivatives_expanded" if expanded else ""))
        if nonzero(lambda ws, B: CF("x", ws, B), wss[0]):
            ctx.count("nontrivial")
            ctx.count("nontrivial_action")
    if o.verdict == "violated":
        sub = mode
        # degenerate input: F.arguments() lists the replaced arguments, but the value of F does not depend on them
        # (they occur only in terms that vanish identically, e.g. the second derivative of a functional linear in w)
        if independent_of(F, lo, hi, wss, fields):
            sub = "replaced-argument-only-in-vanishing-terms"
        report(ctx, sp, "action", sub, o, "Phi(action(F, f)) differs from Phi(F) with its last argument := f", out,
               "Phi(F)[highest-numbered arguments := f]", {"F": safe_str(F, 1200), "F.arguments()": [str(x) for x in F.arguments()], "mode": mode,
                                                          "derivatives_expanded": expanded})
    return o.verdict


def independent_of(F, lo, hi, wss, fields):
    """Numerically: the value of F does not depend on the arguments in hi (they occur only in vanishing terms)."""
    try:
        rest = lin(fields, lo, [(1, 0)])
        CD = Cache(F, {"q": {**rest, **lin(fields, hi, [(1, 0)])}, "0": {**rest, **lin(fields, hi, [])}})
        return all(abs(complex(CD("q", ws, CB).arr) - complex(CD("0", ws, CB).arr)) <= 1e-9 * max(1.0, CD("q", ws, CB).maxabs) for ws in wss)
    except Exception:
        return False


def _all_spaces(F):
    out = []
    for t in list(F.arguments()) + list(F.coefficients()):
        s = t.ufl_function_space()
        if s not in out:
            out.append(s)
    return out


def check_adjoint(ctx, sp, a, wss, fields, rng):
    groups = grouped_arguments(a)
    if groups is None:
        return None
    vargs, uargs = groups
    if not uargs:
        return None
    parts = any(x.part() is not None for x in vargs + uargs)
    mode = rng.choice(["default", "default", "reordered"])
    mode = sp.note.get("adjoint_mode", mode)
    expanded = rng.random() < 0.25
    n0, n1 = 0, 1
    reordered = None
    if mode == "reordered":
        if parts:
            # the mixed code path wants one (u, v) pair per block row and the original numbers
            blocks = sorted(set(sp.note["blocks"]))
            rows = {}
            for (bi, bj) in blocks:
                rows.setdefault(bi, set()).add(bj)
            nrows = max(rows) + 1
            reordered = [None] * nrows
            vby = {x.part(): x for x in vargs}
            uby = {x.part(): x for x in uargs}
            for bi, cols in rows.items():
                bj = sorted(cols)[0]
                if bi in vby and bj in uby:
                    # convention of the oracle: numbers exchanged, spaces and parts kept
                    reordered[bi] = (ufl.Argument(uby[bj].ufl_function_space(), 0, part=uby[bj].part()),
                                     ufl.Argument(vby[bi].ufl_function_space(), 1, part=vby[bi].part()))
        else:
            n0 = rng.choice([0, 2, 5])
            n1 = n0 + rng.choice([1, 3])
            reordered = (ufl.Argument(uargs[0].ufl_function_space(), n0), ufl.Argument(vargs[0].ufl_function_space(), n1))
    kw = {"derivatives_expanded": True} if expanded else {}
    name = "adjoint" if mode == "default" else "adjoint_reordered"
    ok, out = call(ctx, name, lambda: adjoint(a, reordered, **kw))
    if not ok or is_zero_number(out):
        return None
    sub_a = {**lin(fields, vargs, [(1, 0)]), **lin(fields, uargs, [(1, 0)])}
    sub_adj = {}
    for x in vargs:
        sub_adj[ufl.Argument(x.ufl_function_space(), n1, part=x.part())] = ("lin", [(1, fields.get(0, x))])
    for x in uargs:
        sub_adj[ufl.Argument(x.ufl_function_space(), n0, part=x.part())] = ("lin", [(1, fields.get(0, x))])
    if len(sub_adj) != len(vargs) + len(uargs):
        ctx.count("skipped_adjoint_argument_clash")
        return None
    CA = Cache(a, {"x": sub_a})
    CO = Cache(out, {"x": sub_adj})
    o = judge(ctx, lambda ws, B: conj_result(CA("x", ws, B), B), lambda ws, B: CO("x", ws, B), wss)
    ctx.count(f"{o.verdict}_adjoint")
    if o.verdict == "held":
        ctx.covered("adjoint_modes_held", mode + ("+derivatives_expanded" if expanded else "") + ("+parts" if parts else ""))
        if nonzero(lambda ws, B: CA("x", ws, B), wss[0]):
            ctx.count("nontrivial")
            ctx.count("nontrivial_adjoint")
            if sp.cplx:
                ctx.count("nontrivial_adjoint_complex")
    if o.verdict == "violated":
        sub = mode
        extra = {"a": safe_str(a, 1200), "reordered_arguments": safe_str(reordered, 400)}
        try:
            from ufl.algorithms import extract_arguments

            extra["arguments of the result (element, number, part)"] = sorted(
                f"{t.ufl_element()}, {t.number()}, {t.part()}" for t in extract_arguments(out))
        except Exception:
            pass
        if parts:
            blocks = sorted(set(sp.note["blocks"]))
            offdiag = [b for b in blocks if b[0] != b[1]]
            spaces = sp.note["spaces"]
            if offdiag:
                same = all(spaces[b[0]] == spaces[b[1]] for b in offdiag)
                sub += "/offdiagonal-block/" + ("equal-part-spaces" if same else "different-part-spaces")
            else:
                sub += "/diagonal-blocks"
            extra["blocks"] = [list(b) for b in blocks]
            extra["part spaces"] = list(spaces)
            try:
                out.arguments()
            except Exception as ex:
                extra["result.arguments() raises"] = str(ex)[:300]
        report(ctx, sp, "adjoint", sub, o, "Phi(adjoint(a))[test := q, trial := p] differs from conj(Phi(a)[test := p, trial := q])", out,
               "conj(Phi(a)) with the numbers of test and trial function exchanged (spaces and parts kept)", extra)
    return o.verdict


def check_energy_norm(ctx, sp, a, wss, fields, rng):
    groups = grouped_arguments(a)
    if groups is None:
        return None
    vargs, uargs = groups
    if not uargs:
        return None
    mode = rng.choice(["given", "given", "auto"])
    f = ufl.Coefficient(uargs[0].ufl_function_space()) if mode == "given" else None
    name = "energy_norm" if mode == "given" else "energy_norm_auto"
    ok, out = call(ctx, name, lambda: energy_norm(a, f))
    if not ok or is_zero_number(out):
        return None
    if f is None:
        old = set(a.coefficients())
        new = [c for c in out.coefficients() if c not in old]
        if any(c.ufl_function_space() != uargs[0].ufl_function_space() for c in new) or len(new) > 1:
            ctx.violation(f"C16/energy_norm/{sp.family}/auto-coefficient-not-in-argument-space",
                          "energy_norm(a) introduced new coefficients other than one in the argument space",
                          {"form": safe_str(a, 800), "result": safe_str(out, 800)})
            return "violated"
        # no new coefficient: the substituted terms vanished from the result; any field must then give the same value
        f = new[0] if new else ufl.Coefficient(uargs[0].ufl_function_space())
    sub_a = {x: ("expr", f) for x in vargs + uargs}
    CA = Cache(a, {"x": sub_a})
    CO = Cache(out, {"x": {}})
    o = judge(ctx, lambda ws, B: CA("x", ws, B), lambda ws, B: CO("x", ws, B), wss)
    ctx.count(f"{o.verdict}_energy_norm")
    if o.verdict == "held" and nonzero(lambda ws, B: CA("x", ws, B), wss[0]):
        ctx.count("nontrivial")
        ctx.count("nontrivial_energy_norm")
    if o.verdict == "violated":
        report(ctx, sp, "energy_norm", mode, o, "Phi(energy_norm(a, f)) differs from Phi(a)[v := f, u := f]", out, "Phi(a)[v := f, u := f]",
               {"a": safe_str(a, 1200)})
    return o.verdict


def localise(ctx, sp, wss, fields):
    """Which single piece already shows the lhs/rhs/functional disagreement (for the witness)?"""
    hits = []
    for kind, it, sid, piece in sp.pieces[:6]:
        sub = Spec()
        sub.__dict__.update(sp.__dict__)
        sub.pieces = [(kind, it, sid, piece)]
        mute = _Mute(ctx)
        try:
            r = check_parts(mute, sub, piece, wss, fields)
        except Exception:
            continue
        if "violated" in r.values():
            hits.append({"piece": kind, "itype": it, "form": safe_str(piece, 600), "violated": sorted(k for k, v in r.items() if v == "violated")})
    return hits


class _Mute:
    """ctx stand-in that records nothing (localisation re-runs)."""

    def __init__(self, ctx):
        self.tier = ctx.tier

    def count(self, *a, **k):
        pass

    def covered(self, *a, **k):
        pass

    def violation(self, *a, **k):
        pass

    def add_distinct(self, *a, **k):
        pass

    def sample(self, *a, **k):
        pass


def fixed_spec(k):
    """Small hand-written inputs (cases 0..NFIXED-1): the docstring example and minimal MixedFunctionSpace forms."""
    cell, gdim = "triangle", 2
    mesh = E.mesh_for(cell, gdim)
    P1 = ufl.FunctionSpace(mesh, E.P(cell, 1))
    P2 = ufl.FunctionSpace(mesh, E.P(cell, 2))
    sp = Spec()
    sp.cell, sp.gdim, sp.cplx = cell, gdim, k % 2 == 1
    dx = ufl.dx(domain=mesh)
    f = ufl.Coefficient(P1)
    if k in (0, 1):
        # lhs/rhs docstring: a = u*v*dx + f*v*dx
        sp.family = "plain"
        v, u = ufl.TestFunction(P1), ufl.TrialFunction(P1)
        pa, pl = u * v * dx, f * v * dx
        sp.pieces = [("a:mass", "cell", "everywhere", pa), ("L", "cell", "everywhere", pl)]
        sp.note = {"spaces": ["P1", "P1"], "blocks": [(0, 0)]}
        sp.a_form = pa
    else:
        sp.family = "parts"
        names = ["P1", "P2"] if k in (2, 3, 6, 7) else ["P1", "P1"]
        W = ufl.MixedFunctionSpace(*[{"P1": P1, "P2": P2}[n] for n in names])
        (v0, v1), (u0, u1) = ufl.TestFunctions(W), ufl.TrialFunctions(W)
        if k in (2, 3, 4, 5):
            # one off-diagonal block (test part 0, trial part 1)
            pa = u1.dx(0) * v0 * dx
            blocks = [(0, 1)]
        else:
            # diagonal blocks only
            pa = u0 * v0 * dx + ufl.inner(ufl.grad(u1), ufl.grad(v1)) * dx
            blocks = [(0, 0), (1, 1)]
        pl = f * v0 * dx
        sp.pieces = [("a:term", "cell", "everywhere", pa), ("L", "cell", "everywhere", pl)]
        sp.note = {"spaces": names, "blocks": blocks, "diag_only": k in (6, 7)}
        sp.a_form = pa
    sp.note["adjoint_mode"] = "reordered" if k == 7 else "default"
    sp.F = sp.pieces[0][3] + sp.pieces[1][3]
    return sp


NFIXED = 8


def case(ctx, i, rng):
    if i < NFIXED:
        family = "fixed"
        cell, gdim, cplx = "triangle", 2, i % 2 == 1
    else:
        cell, gdim = rng.choice(CELLS)
        cplx = rng.random() < 0.35
        family = rng.choice(["plain", "plain", "plain", "split", "parts", "parts"])
    build_state = rng.getstate()
    try:
        sp = fixed_spec(i) if i < NFIXED else build(rng, family, cell, gdim, cplx)
        family = sp.family
    except Exception as ex:
        ctx.count("build_rejected")
        ctx.covered("build_rejected_with", family + ": " + type(ex).__name__ + ": " + str(ex)[:60])
        return
    F = sp.F
    if F is None or is_zero_number(F) or F.empty():
        ctx.count("build_empty")
        return
    try:
        F.arguments()
    except Exception as ex:
        ctx.count("build_rejected")
        ctx.covered("build_rejected_with", family + ": arguments(): " + type(ex).__name__)
        return
    ctx.count("built")
    ctx.count("built_" + family)
    try:
        wss = [WorldSet(rng, cell, gdim, cplx) for _ in range(NW)]
    except oracle.Unsupported:
        ctx.count("world_unsupported")
        return
    fields = Fields()
    results = {}
    nviol = ctx.counters.get("violations_raw", 0)
    results.update(check_parts(ctx, sp, F, wss, fields))
    if any(results.get(k) == "violated" for k in ("lhs", "rhs", "functional", "lhs_minus_rhs")) and ctx.violations:
        hits = localise(ctx, sp, wss, fields)
        for v in ctx.violations[-6:]:
            if v["case"] == ctx.case_index and isinstance(v.get("detail"), dict) and "single_pieces_that_already_disagree" not in v["detail"]:
                v["detail"]["single_pieces_that_already_disagree"] = hits
    results["action"] = check_action(ctx, sp, F, wss, fields, rng)
    a = sp.a_form
    if a is not None and not a.empty():
        if rng.random() < 0.5:
            results["action_a"] = check_action(ctx, sp, a, wss, fields, rng)
        results["adjoint"] = check_adjoint(ctx, sp, a, wss, fields, rng)
        results["energy_norm"] = check_energy_norm(ctx, sp, a, wss, fields, rng)
    if i >= NFIXED and rng.random() < 0.3:
        # a structural twin: the same recipe built again from fresh objects (other mesh, coefficients, constants; same
        # signature) and taken apart in the same process after the first one - its parts must be ITS parts
        import random as _random

        r2 = _random.Random()
        r2.setstate(build_state)
        try:
            sp2 = build(r2, family, cell, gdim, cplx)
            F2 = sp2.F
            if F2 is not None and not is_zero_number(F2) and not F2.empty() and F2.signature() == F.signature() and F2 != F:
                ctx.count("twin_forms")
                wss2 = [WorldSet(rng, cell, gdim, cplx) for _ in range(NW)]
                res2 = check_parts(ctx, sp2, F2, wss2, Fields(), tag="twin-after-original")
                results.update({"twin:" + k: v for k, v in res2.items()})
                a2 = sp2.a_form
                if a2 is not None and not a2.empty():
                    results["twin:energy_norm"] = check_energy_norm(ctx, sp2, a2, wss2, Fields(), rng)
        except oracle.Unsupported:
            ctx.count("world_unsupported")
        except Exception as ex:
            ctx.count("twin_build_rejected")
            ctx.covered("build_rejected_with", "twin: " + type(ex).__name__ + ": " + str(ex)[:60])
    verdicts = [v for v in results.values() if v is not None]
    violated = ctx.counters.get("violations_raw", 0) > nviol
    if violated:
        ctx.count("case_violated")
    elif "held" in verdicts and all(v in ("held", "skipped") for v in verdicts):
        ctx.count("case_held")
        ctx.covered("families_held", family)
        for _, it, _, _ in sp.pieces:
            ctx.covered("itypes_held", it)
        for k, _, _, _ in sp.pieces:
            ctx.covered("piece_kinds_held", k)
        first = sp.pieces[0][3].integrals()[0].integrand() if sp.pieces[0][3].integrals() else None
        held_ops = tuple(sorted(k for k, v in results.items() if v == "held"))
        ctx.add_distinct((family, sp.kinds(), held_ops, cell, gdim, cplx, skeleton(first, 2) if first is not None else None))
        ctx.sample({"family": family, "cell": [cell, gdim], "complex": cplx, "spaces": sp.note.get("spaces"),
                    "pieces": [[k, it, str(sid)] for k, it, sid, _ in sp.pieces], "held": list(held_ops), "form": safe_str(F, 300)})
        for c in (node_classes(first) if first is not None else ()):
            ctx.covered("first_integrand_node_classes", c)
    else:
        ctx.count("case_undecided")


def finish(ctx):
    # an interpreter that fails often decides nothing: make the run BROKEN instead of quietly thin
    n = ctx.counters.get("cases", 0)
    if ctx.counters.get("oracle_error", 0) > max(5, 0.03 * n):
        raise RuntimeError(f"oracle errors in {ctx.counters.get('oracle_error')} comparisons of {n} cases: {ctx.cover.get('oracle_errors')}")
