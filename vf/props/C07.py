"""C07 - geometry lowering computes the geometric quantities of the actual cell.

Events: apply_geometry_lowering(q(mesh)) for every GeometricQuantity class, bare and inside small
expressions, with and without preserve_types.
Oracle: the lowered expression only contains low-level terminals (reference gradient of x, reference
cell data, CellFacetJacobian, ReferenceNormal, edge vectors ...); its value in a world must equal the
world's value of q computed *directly from the vertex coordinates* (Cayley-Menger volumes, circumcentre
by linear solve, explicit edge lengths, orthogonal complement for normals; vf/world.py).
"""

import numpy as np

import ufl
from ufl import classes as C
from ufl.algorithms.apply_geometry_lowering import apply_geometry_lowering

from .. import elements as E
from .. import oracle
from ..passcheck import check_pass, node_classes

LEVEL = "exploration"
ENGINE = "seval"
TECHNIQUE = "differential runtime monitoring of apply_geometry_lowering against quantities computed directly from random vertex coordinates"
LEVEL_TEXT = (
    "The real apply_geometry_lowering is run on every geometric quantity class on random non-degenerate affine "
    "interval/triangle/tetrahedron cells with gdim>=tdim, both orientations, every local facet/ridge, incl. strongly "
    "anisotropic cells; the value of the lowered expression is compared with the quantity computed directly from the "
    "vertices by independent formulas, 50-digit confirmation before any report."
)
LEVEL_NOTE = "trusted: vf/world.py geometry (Cayley-Menger, circumcentre solve, projections), UFC/basix reference-cell numbering for the terminals UFL leaves to the form compiler"
RULE = (
    "case i = (geometric quantity class, cell, gdim, integral type, preserve_types subset, wrapper, random cell incl. anisotropic); "
    "distinct = (class, cell, gdim, integral type, wrapper, preserve subset); non-trivial = lowering changed the expression"
)
ASSUMPTIONS = [
    "UFC/basix reference cell numbering (facet i opposite vertex i; tetrahedron edge order (2,3),(1,3),(1,2),(0,3),(0,2),(0,1)); sub-entity parametrisation by sorted vertices",
    "on manifolds detJ = CellOrientation * pseudo-determinant and CellNormal carries the orientation (documented conventions)",
    "the 'area' of an interval's facet (a vertex) is 1 (documented)",
]
BUDGET = {"quick": 40, "thorough": 420}
NCASES = {"quick": 2500, "thorough": 60000}
FLOORS = {'quick': {'case_held': 900, 'nontrivial_held': 500, 'two_mesh_held': 60}, 'thorough': {'case_held': 9000, 'nontrivial_held': 5000, 'two_mesh_held': 1200, 'suite:apply_geometry_lowering:held': 20}}

CELLQ = ["SpatialCoordinate", "CellCoordinate", "Jacobian", "JacobianInverse", "JacobianDeterminant", "CellVolume", "Circumradius",
         "CellDiameter", "MinCellEdgeLength", "MaxCellEdgeLength", "CellOrigin", "CellVertices", "CellEdgeVectors", "CellNormal",
         "CellOrientation", "ReferenceCellVolume", "ReferenceCellEdgeVectors"]
FACETQ = ["FacetJacobian", "FacetJacobianInverse", "FacetJacobianDeterminant", "FacetArea", "FacetNormal", "MinFacetEdgeLength",
          "MaxFacetEdgeLength", "FacetOrigin", "CellFacetOrigin", "CellFacetJacobian", "CellFacetJacobianInverse",
          "CellFacetJacobianDeterminant", "ReferenceNormal", "ReferenceFacetVolume", "FacetEdgeVectors", "ReferenceFacetEdgeVectors"]
RIDGEQ = ["RidgeJacobian", "RidgeJacobianInverse", "RidgeJacobianDeterminant", "CellRidgeJacobian", "CellRidgeJacobianInverse",
          "CellRidgeJacobianDeterminant", "CellRidgeOrigin", "RidgeOrigin", "ReferenceRidgeVolume"]
COVER_FLOORS = {"quick": {"quantities_held": CELLQ[:13] + FACETQ[:7]}, "thorough": {"quantities_held": CELLQ[:13] + FACETQ[:7] + RIDGEQ[:3]}}
CELLS = [("interval", 1), ("interval", 2), ("interval", 3), ("triangle", 2), ("triangle", 3), ("tetrahedron", 3)]
PRESERVABLE = ["Jacobian", "JacobianInverse", "JacobianDeterminant", "FacetJacobian", "FacetJacobianDeterminant", "CellVolume", "FacetArea", "SpatialCoordinate", "CellCoordinate"]


def case(ctx, i, rng):
    cell, gdim = rng.choice(CELLS)
    tdim = E.TD[cell]
    group = rng.choice(["cell", "cell", "facet", "facet", "ridge"])
    if group == "ridge" and cell != "tetrahedron":
        group = "facet"
    names = {"cell": CELLQ, "facet": FACETQ, "ridge": RIDGEQ}[group]
    name = names[i % len(names)] if rng.random() < 0.7 else rng.choice(names)
    itype = {"cell": rng.choice(["cell", "exterior_facet"]), "facet": "exterior_facet", "ridge": "ridge"}[group]
    mesh = E.mesh_for(cell, gdim)
    try:
        q = getattr(C, name)(mesh)
        _ = q.ufl_shape
    except Exception as ex:
        ctx.count("build_rejected")
        return
    if rng.random() < 0.15:
        return two_meshes(ctx, rng, cell, gdim, tdim, itype, names, name, q, mesh)
    wrapper = rng.choice(["bare", "bare", "component", "product"])
    e = q
    try:
        if wrapper == "component" and q.ufl_shape:
            e = q[tuple(rng.randrange(d) for d in q.ufl_shape)]
        elif wrapper == "product":
            f = ufl.Coefficient(ufl.FunctionSpace(mesh, E.P(cell, 2)))
            comp = q[tuple(rng.randrange(d) for d in q.ufl_shape)] if q.ufl_shape else q
            e = comp * f + comp**2
    except Exception:
        e = q
        wrapper = "bare"
    preserve = []
    if rng.random() < 0.3:
        preserve = rng.sample(PRESERVABLE, rng.choice([1, 2]))
    ptypes = tuple(getattr(C, p) for p in preserve)
    aniso = rng.random() < 0.25
    try:
        worlds = [oracle.World(rng, cell, gdim, itype, False, aniso=aniso) for _ in range(3)]
    except Exception as ex:
        ctx.count("world_unsupported")
        return
    verdict, out = check_pass(ctx, "C07", "apply_geometry_lowering", e, lambda x: apply_geometry_lowering(x, ptypes), worlds,
                              localise=False, key_override=name + ("/manifold" if gdim > tdim else ""))
    if verdict == "held":
        ctx.covered("quantities_held", name)
        changed = out is not e and str(out) != str(e)
        if changed:
            ctx.count("nontrivial_held")
            ctx.add_distinct((name, cell, gdim, itype, wrapper, tuple(sorted(preserve))))
        ctx.sample({"quantity": name, "cell": [cell, gdim], "itype": itype, "preserve": preserve, "lowered": str(out)[:160]})
        for p in ptypes:
            pass
    elif verdict == "rejected":
        ctx.covered("rejected_quantities", name)


def two_meshes(ctx, rng, cell, gdim, tdim, itype, names, name, q, mesh):
    """One lowering call on quantities of two different meshes with the same cell type: each lowered
    component must read the data of its own mesh (the worlds know their mesh, foreign terminals have no value)."""
    gdim2 = rng.choice([g for (c, g) in CELLS if c == cell])
    mesh2 = E.mesh_for(cell, gdim2)
    name2 = name if rng.random() < 0.6 else rng.choice(names)
    try:
        q2 = getattr(C, name2)(mesh2)
        c1 = q[tuple(rng.randrange(d) for d in q.ufl_shape)] if q.ufl_shape else q
        c2 = q2[tuple(rng.randrange(d) for d in q2.ufl_shape)] if q2.ufl_shape else q2
        pair = [(c1, mesh, gdim, name), (c2, mesh2, gdim2, name2)]
        if rng.random() < 0.5:
            pair.reverse()
        e = ufl.as_vector([pair[0][0], pair[1][0]])
    except Exception:
        ctx.count("build_rejected")
        return
    try:
        out = apply_geometry_lowering(e)
    except Exception as ex:
        ctx.count("rejected")
        ctx.covered("rejected_with", type(ex).__name__)
        return
    if type(out).__name__ != "ListTensor" or len(out.ufl_operands) != 2:
        ctx.count("two_mesh_output_not_a_list")
        return
    ok = True
    for k, (ck, mk, gk, nk) in enumerate(pair):
        try:
            worlds = [oracle.World(rng, cell, gk, itype, False) for _ in range(3)]
        except Exception:
            ctx.count("world_unsupported")
            return
        for w in worlds:
            w.mesh = mk
        verdict, _ = check_pass(ctx, "C07", "apply_geometry_lowering", ck, lambda x, k=k: out.ufl_operands[k], worlds, localise=False,
                                key_override="two-meshes/" + nk + ("/manifold" if gk > tdim else ""))
        ok = ok and verdict == "held"
    if ok:
        ctx.count("two_mesh_held")
        ctx.add_distinct(("two-meshes", pair[0][3], pair[1][3], cell, pair[0][2], pair[1][2], itype))


# ---- additional workload (thorough tier): the repository's own test-suite with this property's passes monitored
EXTRA_JOBS = {"thorough": ["suite"]}
SUITE_TARGETS = ['apply_geometry_lowering']


def extra_suite(ctx):
    """Every call the repository's tests make to the monitored passes is judged by the same value oracle (vf/suitemon.py)."""
    from ..suite_driver import run_suite

    run_suite(ctx, SUITE_TARGETS, "C07")
