"""C12 - signatures do not depend on incidental numbering or process state.

Events: the signatures of one *recipe* (a straight-line program of public-API calls, data) built in
several processes with different histories: fresh counters, every global creation counter pre-set so
that the recipe's own objects straddle 9->10, 99->100, 999->1000, unrelated objects created in
between, different PYTHONHASHSEED, different interpreter start, different order of the other forms
built in the same process.

Oracle: equality of every observed signature with the one of the reference history (fresh counters,
PYTHONHASHSEED=0).  Diagnostics (never deciding): relative structure (vf.canon, mode 'rel') and the
terminal hash data name the mechanism of a difference.
"""

import json
import os
import random
import shutil
import subprocess
import sys
import tempfile
import time

from .. import REPO_DIR, VERIF_DIR
from ..c12_procs import COUNTED, HarnessError, gen_conf, gen_recipe, recipe_digest, tree_fingerprint

_WORKER_TREE = tree_fingerprint(os.path.join(REPO_DIR, "ufl"))  # taken when this worker imported ufl

LEVEL = "exploration"
ENGINE = "procs"
TECHNIQUE = "differential runtime monitoring over process histories: one recipe built by the real API in many processes, signatures compared"
LEVEL_TEXT = (
    "Randomly generated recipes (forms with >=3 constants / coefficients / geometric quantities / variables of the "
    "same class in one commutative operand list, index notation, two meshes, several integrals, derivative) are built "
    "through the public API in separate processes whose creation counters straddle digit boundaries, with unrelated "
    "objects created in between, under several hash seeds, interpreter starts and build orders; Form.signature(), the "
    "signature after renumber_indices, the expression signatures and the signature of "
    "compute_form_data(...).preprocessed_form must equal those of the fresh-counter process."
)
LEVEL_NOTE = (
    "trusted: the recipe interpreter (same data in every process), json/subprocess; counters are pre-set through "
    "the class attributes named in the property anchors and verified through .count()/.ufl_id(); sampled, not exhaustive"
)
RULE = (
    "case = batch of random recipes x list of process histories; a (recipe, history) pair is distinct by (program "
    "digest, history index) and non-trivial when the history differs from the reference in hash seed, interpreter "
    "start, build order, interleaved foreign objects, or the recipe's own objects of some counted class received "
    "counts on both sides of a power of ten"
)
ASSUMPTIONS = [
    "'same form built the same way' = the same recipe program interpreted by the same interpreter; relative creation order of the recipe's own objects is kept in every history",
    "a build or an analysis that raises with the same exception type in both histories is counted as rejected, not judged",
    "compute_form_data is called with default options (and with pull-backs, scaling and geometry lowering for half of the recipes)",
    "every history is a separate interpreter start (python -c ...) with its own PYTHONHASHSEED",
]
BUDGET = {"quick": 75, "thorough": 420}
NCASES = {"quick": 16, "thorough": 16}
BATCH = {"quick": 16, "thorough": 96}
CASE_TIMEOUT = 1500.0  # one case = one batch of recipes x all histories (dozens of child processes)
EVAL_COUNTER = "pairs_compared"
# about 40 % of what a complete run observes
FLOORS = {
    "quick": {
        "recipes": 100,
        "shared_equal": 350,
        "pairs_compared": 1800,
        "pairs_straddling_power_of_ten": 1400,
        "pairs_other_hashseed": 500,
        "pairs_same_history_other_interpreter_start": 60,
        "pairs_with_foreign_objects": 700,
        "pairs_other_build_order": 300,
        "sig_compared": 1800,
        "sig_renum_compared": 1800,
        "sig_expr_compared": 1800,
        "sig_fd_compared": 1500,
        "sig_fd_lowered_compared": 700,
        "straddle:Constant": 700,
        "straddle:Mesh": 200,
        "straddle:Index": 600,
        "straddle:Label": 200,
        "straddle:Coefficient": 900,
    },
    "thorough": {
        "recipes": 600,
        "shared_equal": 2500,
        "pairs_compared": 38000,
        "pairs_straddling_power_of_ten": 25000,
        "pairs_other_hashseed": 10000,
        "pairs_same_history_other_interpreter_start": 1200,
        "pairs_with_foreign_objects": 15000,
        "pairs_other_build_order": 8000,
        "sig_compared": 38000,
        "sig_renum_compared": 38000,
        "sig_expr_compared": 38000,
        "sig_fd_compared": 32000,
        "sig_fd_lowered_compared": 15000,
        "straddle:Constant": 14000,
        "straddle:Mesh": 4000,
        "straddle:Index": 12000,
        "straddle:Label": 4000,
        "straddle:Coefficient": 18000,
    },
}
_KINDS = ["build-order", "combined", "counters", "hashseed", "interpreter-start"]
_FEATURES = ["add:const", "mul:const", "add:coef", "mul:gq", "add:gq", "mul:var", "add:xcomp", "mul:contr", "mul:tcontr", "zero-with-free-index", "diff", "derivative"]
COVER_FLOORS = {
    "quick": {"history_kinds": _KINDS, "features": _FEATURES, "integral_types": ["cell", "exterior_facet", "interior_facet"]},
    "thorough": {"history_kinds": _KINDS, "features": _FEATURES, "integral_types": ["cell", "exterior_facet", "interior_facet"]},
}

OBSERVABLES = [
    ("sig", "signature"),
    ("sig_expr", "expression-signature"),
    ("sig_renum", "renumbered-signature"),
    ("sig_fd", "preprocessed-signature"),
    ("sig_fd_lowered", "lowered-preprocessed-signature"),
]


def histories(tier):
    """List of (kind, boundary, hashseed, order) - index 0 is the reference; one interpreter start each."""
    H = [("fresh", None, "0", "natural")]
    if tier == "quick":
        H += [("fresh", None, s, "natural") for s in ("1", "2", "3")]
        H += [("fresh", None, "0", "natural"), ("fresh", None, "0", "reversed")]
        H += [("shift", b, "0", "natural") for b in (10, 100, 1000) for _ in range(2)]
        H += [("noise", None, "0", "natural") for _ in range(2)]
        H += [("shift+noise", b, "0", "natural") for b in (10, 100, 1000)]
        H += [("shift+noise", 10, "4", "shuffled"), ("shift+noise", 100, "5", "shuffled")]
        H += [("natural", None, "0", "natural"), ("natural+noise", None, "0", "natural"), ("natural+noise", None, "0", "reversed")]
    else:
        H += [("fresh", None, str(s), "natural") for s in range(1, 11)]
        H += [("fresh", None, "0", "natural"), ("fresh", None, "0", "natural")]
        H += [("fresh", None, "0", "reversed"), ("fresh", None, "0", "shuffled"), ("fresh", None, "0", "shuffled")]
        H += [("shift", b, "0", "natural") for b in (10, 100, 1000) for _ in range(6)]
        H += [("noise", None, "0", "natural") for _ in range(8)]
        H += [("shift+noise", b, "0", "natural") for b in (10, 100, 1000) for _ in range(4)]
        H += [("shift+noise", b, str(11 + k), "shuffled") for k, b in enumerate((10, 100, 1000, 10, 100, 1000, 10, 100, 1000, 10))]
        H += [("natural", None, "0", "natural"), ("natural", None, "0", "reversed"), ("natural", None, "0", "shuffled")]
        H += [("natural+noise", None, "0", o_) for o_ in ("natural", "natural", "reversed", "shuffled", "shuffled")]
    return H


def history_kind(h):
    kind, _b, hs, order = h
    differs = []
    if kind != "fresh":
        differs.append("counters")
    if hs != "0":
        differs.append("hashseed")
    if order != "natural":
        differs.append("build-order")
    if not differs:
        return "interpreter-start"
    if len(differs) == 1:
        return differs[0]
    return "combined"


_CHILD = (
    "import sys; sys.path.insert(0, sys.argv[1]); import numpy, ufl, ufl.algorithms; "
    "from vf.c12_procs import child_main; child_main()"
)


def run_child(recipes, confs, order, hashseed, timeout, pyc):
    """One interpreter start; returns {recipe index: observation} or None on timeout."""
    for attempt in range(3):
        try:
            return _run_child(recipes, confs, order, hashseed, timeout, pyc)
        except HarnessError:
            # the tree under test may be in the middle of being edited: wait and try again
            if attempt == 2:
                raise
            time.sleep(3)


def _run_child(recipes, confs, order, hashseed, timeout, pyc):
    env = dict(os.environ)
    env["PYTHONHASHSEED"] = hashseed
    env["PYTHONPATH"] = VERIF_DIR + os.pathsep + env.get("PYTHONPATH", "")
    env["VERIF_REPO"] = REPO_DIR
    # byte code of the tree under test is cached in a scratch directory of this case (never in /repo);
    # ufl is imported before vf because vf switches byte code writing off
    env.pop("PYTHONDONTWRITEBYTECODE", None)
    env["PYTHONPYCACHEPREFIX"] = pyc
    for v in ("OPENBLAS_NUM_THREADS", "OMP_NUM_THREADS", "MKL_NUM_THREADS"):
        env[v] = "1"
    job = json.dumps({"recipes": recipes, "confs": confs, "order": order, "canon": True})
    try:
        p = subprocess.run(
            [sys.executable, "-c", _CHILD, REPO_DIR],
            input=job.encode(),
            env=env,
            cwd=VERIF_DIR,
            stdout=subprocess.PIPE,
            stderr=subprocess.PIPE,
            timeout=timeout,
        )
    except subprocess.TimeoutExpired:
        return None
    for line in p.stdout.decode(errors="replace").splitlines():
        if line.startswith("C12RESULT "):
            r = json.loads(line[len("C12RESULT ") :])
            if os.path.realpath(os.path.dirname(r["ufl"])) != os.path.realpath(os.path.join(REPO_DIR, "ufl")):
                raise HarnessError("child imported ufl from " + r["ufl"])
            r["res"]["tree"] = r["tree"]
            return r["res"]
    raise HarnessError("child process gave no result (rc=%s): %s" % (p.returncode, p.stderr.decode(errors="replace")[-1500:]))


# ---------------------------------------------------------------- diagnostics (mechanism of a difference)

_NOT_A_NODE = {
    "Mesh", "MeshView", "MeshSequence", "FunctionSpace", "MixedFunctionSpace", "DualSpace", "TensorProductFunctionSpace",
    "i", "fixed", "int", "str", "tuple", "list", "py", "dict", "float", "set", "cargo",
}
_GQ = None


def _class_label(name):
    """Geometric quantities are one family of terminals: label them as such."""
    global _GQ
    if _GQ is None:
        import ufl.classes as uc
        from ufl.geometry import GeometricQuantity

        _GQ = {n for n in dir(uc) if isinstance(getattr(uc, n), type) and issubclass(getattr(uc, n), GeometricQuantity)}
    return "GeometricQuantity." + name if name in _GQ else name


def _tag(x):
    if isinstance(x, list) and x and isinstance(x[0], str):
        return x[0]
    return None


def _norm(x):
    """Order-insensitive normal form (every list sorted recursively)."""
    if isinstance(x, list):
        return sorted((_norm(c) for c in x), key=lambda c: json.dumps(c, sort_keys=True))
    return x


def _erase_indices(x, erase=True):
    """Copy of a canon tree with inner(a, b) in one spelling and (erase=True) without index numbers
    (canon numbers indices by first occurrence, so one swapped operand pair renumbers everything after it)."""
    if isinstance(x, list):
        t = _tag(x)
        if erase and t == "i":
            return ["i"]
        if erase and t == "Zero" and len(x) == 4:
            return ["Zero", x[1], len(x[2]), x[3]]
        if t == "Conj" and _is_operator(x) and len(x[1]) == 1 and _tag(x[1][0]) == "Inner" and len(x[1][0][1]) == 2:
            # inner(a, b) is stored as Conj(Inner(b, a)) when its operands sort the other way round
            inner = x[1][0]
            return ["Inner", [_erase_indices(inner[1][1], erase), _erase_indices(inner[1][0], erase)], inner[2]]
        return [_erase_indices(c, erase) for c in x]
    return x


def _is_operator(x):
    return isinstance(x, list) and len(x) == 3 and isinstance(x[0], str) and isinstance(x[1], list) and isinstance(x[2], list) and x[0] != "MultiIndex"


def _decide(x, y):
    """Class of the node at which ufl.sorting.cmp_expr would decide the order of x and y
    (type first, then operands last-to-first, terminals by their data); None = no decision."""
    tx, ty = _tag(x), _tag(y)
    if tx is None or ty is None:
        return None if x == y else "?"
    if tx != ty:
        return "|".join(sorted((_class_label(tx), _class_label(ty))))
    if _is_operator(x) and _is_operator(y):
        ox, oy = x[1], y[1]
        for k in reversed(range(min(len(ox), len(oy)))):
            if ox[k] != oy[k]:
                r = _decide(ox[k], oy[k])
                if r is not None:
                    return r
        if len(ox) != len(oy) or x[2] != y[2]:
            return _class_label(tx)
        return None
    if x == y or tx == "Label":
        return None
    return _class_label(tx)


def _find_swap(a, b):
    """Deepest place where the two trees hold the same children in a different order.

    Returns ('operand-order'|'integral-order', class deciding the order of the swapped children) or
    ('structure', class around the first difference).
    """
    if a == b:
        return None
    if not (isinstance(a, list) and isinstance(b, list) and len(a) == len(b)) or _tag(a) != _tag(b):
        return ("structure", _decide(a, b) or "?")
    na = [json.dumps(_norm(c), sort_keys=True) for c in a]
    nb = [json.dumps(_norm(c), sort_keys=True) for c in b]
    if sorted(na) == sorted(nb):
        used = [False] * len(b)
        pairs = []
        for k, c in enumerate(a):
            # prefer the same position, else the first unused child with the same normal form
            j = k if (not used[k] and nb[k] == na[k]) else next((j for j in range(len(b)) if not used[j] and nb[j] == na[k]), None)
            if j is None:
                return ("structure", _decide(a, b) or "?")
            used[j] = True
            pairs.append((c, b[j]))
        for x, y in pairs:
            if x != y:
                r = _find_swap(x, y)
                if r is not None:
                    return r
        k = next(k for k in range(len(a)) if a[k] != b[k])
        what = "integral-order" if _tag(a[k]) == "Integral" else "operand-order"
        return (what, _decide(a[k], b[k]) or "undecided")
    k = next(k for k in range(len(a)) if a[k] != b[k])
    return _find_swap(a[k], b[k]) or ("structure", _decide(a, b) or "?")


def _hashdata_classes(ta, tb):
    """Terminal classes whose signature hash data differ (geometric quantities as one family)."""
    bad = {_class_label(k).split(".")[0] for k in set(ta) | set(tb) if ta.get(k) != tb.get(k)}
    if len(bad) > 2:
        return "several-terminal-classes"
    return "+".join(sorted(bad))


def mechanism(ref, obs):
    ca, cb = ref.get("canon"), obs.get("canon")
    if isinstance(ca, list) and isinstance(cb, list):
        if ca != cb:
            if _erase_indices(ca, False) == _erase_indices(cb, False):
                return "operand-order/Inner"
            ea, eb = _erase_indices(ca), _erase_indices(cb)
            if ea == eb:
                return "structure/index-pattern"
            try:
                what, cls = _find_swap(ea, eb)
            except RecursionError:
                return "structure/?"
            return f"{what}/{cls}"
        ta, tb = ref.get("thd"), obs.get("thd")
        if isinstance(ta, dict) and isinstance(tb, dict):
            if ta != tb:
                return "hashdata-of-" + _hashdata_classes(ta, tb)
        return "same-tree-same-terminal-data"
    return "undiagnosed"


_SEEN_KEYS = {}  # per worker process: violation key -> number of differences with that key


def digits(n):
    return len(str(int(n)))


# ---------------------------------------------------------------- the case


SHARED_PER_CASE = {"quick": 60, "thorough": 400}


def shared_object_histories(ctx, rng):
    """In-process histories over forms that share objects (vf/c12_shared.py): the signature of a form alone and after
    the real code has observed another form over the same spaces / meshes / coefficients."""
    from .. import c12_shared as SH

    for _ in range(SHARED_PER_CASE[ctx.tier]):
        p = SH.draw(rng)
        st, d = SH.run(p)
        ctx.count("shared_histories")
        ctx.count("shared_" + st)
        if st == "rejected":
            ctx.covered("shared_rejected", p["family"] + ": " + d[:80])
            continue
        ctx.covered("shared_families_" + st, p["family"])
        for o in d["done"]:
            ctx.covered("shared_earlier_observations", o)
        if st == "differs":
            ctx.violation(
                f"C12/shared-objects/signature-depends-on-earlier-observation/{p['family']}",
                f"two forms over shared objects ({p['family']}), built twice in the same way: the signature of one form is {d.get('alone')}.. when asked "
                f"first and {d.get('after')}.. after {'+'.join(d['done'])} of the other form ({d['what']})",
                {"params": p, "detail": d},
            )


def case(ctx, i, rng):
    tier = ctx.tier
    shared_object_histories(ctx, random.Random(rng.getrandbits(64)))
    R = BATCH[tier]
    recipes = []
    for k in range(R):
        r = gen_recipe(random.Random(rng.getrandbits(64)))
        r["lower"] = k % 2 == 0
        recipes.append(r)
    digs = [recipe_digest(r) for r in recipes]
    H = histories(tier)
    confs_all = []
    plan = []
    for hi, h in enumerate(H):
        kind, boundary, hashseed, order = h
        crng = random.Random(rng.getrandbits(64))
        confs = [gen_conf(crng, kind, boundary, r["nown"]) for r in recipes]
        idx = list(range(R))
        if order == "reversed":
            idx.reverse()
        elif order == "shuffled":
            crng.shuffle(idx)
        confs_all.append(confs)
        plan.append((hi, confs, idx, hashseed))
    # reference first; the others in a per-case order, so that a run cut short by its time budget
    # still sees every kind of history
    rest = plan[1:]
    rng.shuffle(rest)
    results = [None] * len(H)
    pyc = tempfile.mkdtemp(prefix="vf_c12_pyc_")
    try:
        for n, (hi, confs, idx, hashseed) in enumerate([plan[0]] + rest):
            if n > 0 and ctx.time_left() < 3:
                ctx.count("histories_not_run_time_budget")
                continue
            results[hi] = run_child(recipes, confs, idx, hashseed, 60 + 5 * R, pyc)
            ctx.count("child_processes")
            if results[hi] is None:
                ctx.count("child_timeouts")
    finally:
        shutil.rmtree(pyc, ignore_errors=True)
    attr_cache = {}
    seen_keys = _SEEN_KEYS
    ref = results[0]
    if ref is None:
        ctx.count("cases_skipped_reference_timeout")
        return
    # the tree under test must be the same in every process of the case (it may be edited while we run)
    if ref["tree"] == "changed-while-running":
        ctx.count("cases_skipped_tree_under_test_changed")
        return
    for hi in range(1, len(H)):
        if results[hi] is not None and results[hi]["tree"] != ref["tree"]:
            ctx.count("histories_discarded_tree_under_test_changed")
            results[hi] = None
    # in-process diagnostics are only meaningful if this worker imported the same tree
    can_attribute = _WORKER_TREE == ref["tree"]
    if not can_attribute:
        ctx.count("cases_without_in_process_diagnostics_tree_changed")
    for k, r in enumerate(recipes):
        a = ref[str(k)]
        if a.get("timeout"):
            ctx.count("recipes_skipped_timeout")
            continue
        ctx.count("recipes")
        for f in r["features"]:
            ctx.covered("features", f)
        ctx.covered("cells", r["cell"])
        for t in r["itypes"]:
            ctx.covered("integral_types", t)
        if a["build"] != "ok":
            ctx.count("recipes_rejected_by_ufl_at_build")
        elif r["nmesh"] > 1:
            ctx.count("recipes_two_meshes")
        _check_counts(a, confs_all[0][k], H[0])
        for hi in range(1, len(H)):
            if results[hi] is None:
                continue
            b = results[hi][str(k)]
            h = H[hi]
            hk = history_kind(h)
            conf = confs_all[hi][k]
            if b.get("timeout"):
                ctx.count("pairs_skipped_timeout")
                continue
            if a["build"] != "ok" or b["build"] != "ok":
                if a["build"] == b["build"]:
                    ctx.count("pairs_rejected_at_build_in_both")
                else:
                    ctx.violation(
                        f"C12/build-outcome/{hk}",
                        f"recipe {digs[k]}: building gives {a['build']} with fresh counters but {b['build']} under history {h} {conf['start']}",
                        {"recipe": r, "conf": conf, "history": h, "msg": [a.get("build_msg"), b.get("build_msg")]},
                    )
                continue
            _check_counts(b, conf, h)
            ctx.count("pairs_compared")
            ctx.add_distinct((digs[k], hi))
            ctx.covered("history_kinds", hk)
            # ---- what made this pair non-trivial
            strad = []
            for cls in COUNTED:
                cs = b["counts"].get(cls) or []
                if cs and digits(min(cs)) != digits(max(cs)):
                    strad.append(cls)
                    ctx.count("straddle:" + cls)
            if strad:
                ctx.count("pairs_straddling_power_of_ten")
            if h[2] != "0":
                ctx.count("pairs_other_hashseed")
            if hk == "interpreter-start":
                ctx.count("pairs_same_history_other_interpreter_start")
            if b.get("noise_made"):
                ctx.count("pairs_with_foreign_objects")
                ctx.count("foreign_objects_created", b["noise_made"])
            if h[3] != "natural":
                ctx.count("pairs_other_build_order")
            if k == 0 and hi in (6, 15):
                ctx.sample(
                    {
                        "recipe": digs[k], "statements": len(r["prog"]), "own_objects": r["nown"], "features": r["features"],
                        "history": list(h), "counter_start": conf["start"], "own_counts_seen": {c: (v[:1] + v[-1:]) for c, v in b["counts"].items() if v},
                        "signature_ref": str(a.get("sig"))[:16], "signature_here": str(b.get("sig"))[:16],
                        "preprocessed_ref": str(a.get("sig_fd"))[:16], "preprocessed_here": str(b.get("sig_fd"))[:16],
                    },
                    limit=3,
                )
            # ---- the oracle: every observed signature equals the reference one
            fam_causes = {}
            for name, label in OBSERVABLES:
                if name not in a and name not in b:
                    continue
                va, vb = a.get(name), b.get(name)
                ra = isinstance(va, str) and va.startswith("raised:")
                rb = isinstance(vb, str) and vb.startswith("raised:")
                if ra and rb and va == vb:
                    ctx.count(name + "_rejected_in_both")
                    continue
                if ra or rb:
                    ctx.violation(
                        f"C12/{label}/{hk}/outcome-differs",
                        f"recipe {digs[k]}: {name} is {str(va)[:40]} with fresh counters but {str(vb)[:40]} under history {h} start={conf['start']}",
                        {"recipe": r, "conf": conf, "history": h},
                    )
                    continue
                ctx.count(name + "_compared")
                if va == vb:
                    ctx.count(name + "_equal")
                    continue
                ctx.count(name + "_different")
                fam = "fd" if name.startswith("sig_fd") else "sig"
                if fam in fam_causes:
                    # same family of observables: repeats the difference already reported for this pair
                    ctx.count("differences_repeating_an_earlier_observable")
                    continue
                # ---- diagnostics: name the mechanism (never changes the verdict)
                causes = []
                if hk in ("counters", "combined") and can_attribute:
                    if fam == "fd":
                        # a different tree was handed to the preprocessing: same causes as for the built form
                        causes = [m for m in fam_causes.get("sig", []) if m.startswith(("operand-order", "structure", "index-pattern"))]
                    if not causes:
                        causes = attribute(r, a, b, name, attr_cache.setdefault(k, {}))
                guess = None
                if not causes:
                    guess = mechanism(a, b)
                    m = guess
                    if fam == "fd" and not guess.startswith(("operand-order", "structure", "integral-order")):
                        m = "arises-in-preprocessing"
                    if hk in ("counters", "combined"):
                        m = m.split("/")[0] + "/not-reproduced-by-counts-of-one-class"
                    causes = [m]
                fam_causes[fam] = causes
                for m in causes:
                    key = f"C12/{label}/{hk}/{m}"
                    ctx.count("differences_found")
                    # the runner keeps at most 200 violations per worker: a mechanism that fires very often must
                    # not crowd out another one, so each key is recorded a few times only (all are counted)
                    seen_keys[key] = seen_keys.get(key, 0) + 1
                    if seen_keys[key] > 4:
                        ctx.count("differences_not_recorded_repeat_of_a_recorded_key")
                        continue
                    if guess is None:
                        guess = mechanism(a, b)
                    ctx.violation(
                        key,
                        f"recipe {digs[k]} ({r['cell']}, {r['nmesh']} mesh): {name} {str(va)[:12]}.. with fresh counters, "
                        f"{str(vb)[:12]}.. under history {h} with own counts {_brief(b['counts'])}; mechanism {m} (tree comparison: {guess})",
                        {
                            "recipe": r, "conf": conf, "history": h, "counts_ref": a["counts"], "counts_here": b["counts"],
                            "const_numbering": [a.get("const_numbering"), b.get("const_numbering")],
                            "coef_numbering": [a.get("coef_numbering"), b.get("coef_numbering")],
                        },
                    )


def what_differs(x, y, name):
    """Coarse kind of difference between two observations of the same recipe."""
    ca, cb = x.get("canon"), y.get("canon")
    if not (isinstance(ca, list) and isinstance(cb, list)):
        return "undiagnosed"
    if ca == cb:
        ta, tb = x.get("thd"), y.get("thd")
        if ta != tb:
            if isinstance(ta, dict) and isinstance(tb, dict):
                return "hashdata-of-" + _hashdata_classes(ta, tb)
            return "hashdata"
        return "arises-in-preprocessing" if name.startswith("sig_fd") else "same-tree-same-terminal-data"
    if _erase_indices(ca, False) == _erase_indices(cb, False):
        return "operand-order"  # only the spelling of inner(a, b) differs: Inner(a, b) / Conj(Inner(b, a))
    ea, eb = _erase_indices(ca), _erase_indices(cb)
    if ea == eb:
        return "index-pattern"
    if _norm(ea) == _norm(eb):
        return "operand-order"
    return "structure"


def attribute(r, a, b, name, cache):
    """Which counted class alone reproduces the difference?  The recipe is rebuilt in this process with
    the counts of ONE class forced to those seen in the deviating history, all others fresh."""
    from ..c12_procs import observe

    zero = {c: 0 for c in COUNTED}
    if "base" not in cache:
        cache["base"] = {}
    if name not in cache["base"]:
        cache["base"][name] = observe(r, {"start": zero, "noise": None}, want_canon=True, only=(name,), use_alarm=False)
    base = cache["base"][name]
    if base.get(name) != a.get(name):
        return []
    out = []
    for cls in COUNTED:
        cs = b["counts"].get(cls) or []
        if not cs or cs == a["counts"].get(cls):
            continue
        key = (name, cls, tuple(cs))
        if key not in cache:
            o = observe(r, {"start": zero, "noise": None, "force": {cls: cs}}, want_canon=True, only=(name,), use_alarm=False)
            cache[key] = None if o.get(name) == base.get(name) else what_differs(base, o, name)
        if cache[key] is not None:
            out.append(f"{cache[key]}/{cls}")
    return out


def _brief(counts):
    return {c: (f"{v[0]}..{v[-1]}" if len(v) > 1 else str(v[0])) for c, v in counts.items() if v}


def _check_counts(obs, conf, h):
    """The history was really what the configuration asked for (public accessors)."""
    if obs.get("build") != "ok" or conf["start"] is None:
        return  # (history kind 'natural': the counters are left as the process made them)
    for cls in COUNTED:
        cs = obs["counts"].get(cls) or []
        if not cs:
            continue
        want = conf["start"][cls]
        if conf.get("noise"):
            ok = cs[0] >= want
        else:
            ok = cs[0] == want
        if not ok or any(y <= x for x, y in zip(cs, cs[1:])):
            raise HarnessError(f"counter of {cls} not where the history wants it: start {want}, own counts {cs}, history {h}")
