"""C17 - restriction propagation preserves two-sided integrands.

Events: apply_restrictions(integrand) (propagation only) and apply_restrictions(integrand,
default_restrictions={mesh: '+'}) (checking mode with default restrictions) on interior-facet
integrands with every side assignment, jumps / averages, facet normals, H1 and non-H1 coefficients,
geometric quantities, derivatives, on non-manifold and manifold cell pairs.
Oracle: a two-cell world (two cells sharing a facet, built from vertex coordinates).  A terminal is
side dependent iff its value differs between the two cells of a generic conforming world (that is
decided by the world, not by UFL's handler table); H1 fields agree in value but not in normal
derivative.  (1) S(out) ~ S(in) in the two-sided interpreter; (2) if the input is ambiguous (an
unrestricted side-dependent quantity) or doubly restricted and UFL accepts it in checking mode, that
is a violation; (3) in the output every side-dependent terminal is under exactly one Restricted.
"""

import ufl
from ufl.algorithms import expand_derivatives
from ufl.algorithms.apply_restrictions import apply_restrictions

from .. import elements as E
from .. import oracle
from ..gen import Gen, Universe
from ..passcheck import count_verdicts, node_classes, skeleton
from ..seval import S, StructureMismatch
from ..world import Ambiguous, Unsupported, World

LEVEL = "exploration"
ENGINE = "seval"
TECHNIQUE = "differential runtime monitoring of apply_restrictions in a two-cell world (values of both sides from vertex data), incl. the ambiguity rule for missing restrictions"
LEVEL_TEXT = (
    "apply_restrictions is run in both modes on generated interior-facet integrands (all side assignments, some leaves "
    "deliberately left unrestricted or restricted twice); the integrand is evaluated before and after in a two-cell "
    "world built from vertex coordinates (conforming and non-conforming facet parametrisations, manifolds), acceptance of "
    "ambiguous inputs is flagged, and the output is checked to restrict every side-dependent terminal exactly once."
)
LEVEL_NOTE = "trusted: vf/world.py two-cell geometry and field continuity model, vf/seval.py; affine simplex cells, single mesh"
RULE = (
    "case i = (integrand from the seeded generator with restrictions, fraction of leaves left unrestricted, mode, cell incl. manifolds); "
    "distinct = (mode, skeleton depth 3, cell, whether leaves were left unrestricted); non-trivial = contains at least one Restricted node "
    "or unrestricted side-dependent leaf"
)
ASSUMPTIONS = [
    "continuity is a property of the declared Sobolev space: identity-pullback elements declared H1 (or smoother) have the same value "
    "on both sides of a facet but different normal derivatives; everything else is independent per side",
    "facet coordinate, reference facet data and facet Jacobians agree between the sides only in conforming worlds (same local facet "
    "number and vertex order); non-conforming worlds are used only for fully restricted integrands",
    "on affine non-manifold meshes the facet normal of the '-' side is minus the '+' side normal",
]
BUDGET = {"quick": 50, "thorough": 450}
NCASES = {"quick": 3000, "thorough": 60000}
FLOORS = {'quick': {'case_held': 350, 'ambiguity_checks': 100, 'structure_checks': 300}, 'thorough': {'case_held': 8000, 'ambiguity_checks': 2000, 'structure_checks': 6000, 'suite:apply_restrictions:held': 4}}
COVER_FLOORS = {"quick": {"modes_held": ["propagate", "default"]}, "thorough": {"modes_held": ["propagate", "default"]}}
CELLS = [("interval", 1), ("interval", 2), ("triangle", 2), ("triangle", 2), ("triangle", 3), ("tetrahedron", 3)]


def restriction_depths(e):
    """For every terminal occurrence: number of Restricted nodes above it (as a set of (class, depth))."""
    out = []
    seen = set()

    def walk(o, depth):
        key = (id(o), depth)
        if key in seen:
            return
        seen.add(key)
        n = type(o).__name__
        if n in ("PositiveRestricted", "NegativeRestricted"):
            depth += 1
        if o._ufl_is_terminal_:
            out.append((o, depth))
            return
        for c in o.ufl_operands:
            walk(c, depth)

    walk(e, 0)
    return out


def side_dependent(t, worlds):
    """Decide with the world whether terminal t differs between the two sides."""
    n = type(t).__name__
    if n in ("MultiIndex", "Label", "IntValue", "FloatValue", "ComplexValue", "Zero", "Identity", "PermutationSymbol", "Constant", "QuadratureWeight"):
        return False
    for w in worlds:
        try:
            S(t, w)
        except Ambiguous:
            return True
        except (Unsupported, StructureMismatch):
            return None
    return False


def reference_value_consistency(ctx, rng, U, dr):
    """After function pull-backs every form argument occurs as ReferenceValue(f): the wrapper must get the verdict
    (accepted unrestricted / rejected as missing a restriction) and the side of the terminal it wraps."""
    from ufl.classes import ReferenceValue

    name = rng.choice(sorted(U.spaces))
    f = U.coef(name, 0) if rng.random() < 0.5 else U.arg(name, rng.randrange(2))

    def verdict(e):
        try:
            o = apply_restrictions(e, default_restrictions=dr) if dr is not None else apply_restrictions(e)
        except Exception as ex:
            return ("rejected", type(ex).__name__)
        side = o.side() if type(o).__name__ in ("PositiveRestricted", "NegativeRestricted") else None
        return ("accepted", side)

    for wrap in (lambda t: t, lambda t: t("+"), lambda t: t("-")):
        a = verdict(wrap(f))
        b = verdict(wrap(ReferenceValue(f)))
        ctx.count("reference_value_consistency_checks")
        if a[0] != b[0] or (a[0] == "accepted" and a[1] != b[1]):
            kind = type(f).__name__ + ("-H1" if f.ufl_element() in ufl.H1 else "-nonH1")
            ctx.violation(f"C17/reference-value-verdict-differs-from-terminal/{kind}",
                          f"apply_restrictions gives {a} for the terminal and {b} for ReferenceValue of it (default restrictions {None if dr is None else list(dr.values())})",
                          {"terminal": str(f), "space": name})


def case(ctx, i, rng):
    cell, gdim = rng.choice(CELLS)
    cplx = rng.random() < 0.15
    U = Universe(rng, cell, gdim, "interior_facet", cplx)
    G = Gen(U, rng, cplx=cplx, deriv=rng.choice([0, 1, 1]), cond=rng.random() < 0.3, math=rng.random() < 0.5, geom=rng.random() < 0.7)
    mode = rng.choice(["propagate", "default", "default"])
    unr = rng.choice([0.0, 0.0, 0.15, 0.4]) if mode == "default" else rng.choice([0.0, 0.0, 0.1])
    G.unrestricted_prob = unr
    double = rng.random() < 0.04
    try:
        e = G.expr((), rng.choice([1, 2, 3]))
        if rng.random() < 0.3:
            # jumps and averages through the public helpers
            names = sorted(U.spaces)
            f = U.coef(rng.choice(names), 0)
            comp = tuple(rng.randrange(d) for d in f.ufl_shape)
            fc = f[comp] if comp else f
            n = ufl.FacetNormal(U.mesh)
            e = e + rng.choice([lambda: ufl.jump(fc), lambda: ufl.avg(fc), lambda: ufl.jump(fc, n)[0], lambda: ufl.inner(ufl.jump(ufl.grad(fc)), n("+"))])()
        if rng.random() < 0.2:
            # a labelled variable whose body is written without restrictions, seen from both sides in one integrand
            # (jump / avg of a stored quantity): each side must get its own propagated body
            Gv = Gen(U, rng, cplx=cplx, deriv=0, cond=False, math=rng.random() < 0.5, geom=False, restrict=False)
            sv = ufl.variable(Gv.expr((), rng.choice([1, 2])))
            e = e + rng.choice([lambda: ufl.jump(sv), lambda: ufl.avg(sv), lambda: sv("+") * sv("-"), lambda: sv("-") + 2 * sv("+"), lambda: sv("-") * sv("-") - sv("+")])()
            ctx.count("variable_on_both_sides")
        if double:
            sub = G.expr((), 1)
            e = e + sub("+") if rng.random() < 0.5 else e + sub("-")
        pre = expand_derivatives(e)
    except Exception as ex:
        ctx.count("build_rejected")
        ctx.covered("build_rejected_with", type(ex).__name__)
        return
    conforming = True if (unr or double) else rng.random() < 0.6
    worlds = [World(rng, cell, gdim, "interior_facet", cplx, conforming=conforming) for _ in range(3)]
    # is the input well defined?
    status = []
    for w in worlds:
        try:
            S(pre, w)
            status.append("ok")
        except Ambiguous:
            status.append("ambiguous")
        except Unsupported as ex:
            status.append("nested" if "nested restriction" in str(ex) else "unsupported")
        except StructureMismatch:
            status.append("structure")
        except Exception:
            status.append("numeric")
    dr = {U.mesh: rng.choice(["+", "+", "-"])} if mode == "default" else None
    if rng.random() < 0.12:
        reference_value_consistency(ctx, rng, U, dr)
    if rng.random() < 0.15:
        pipeline_route(ctx, rng, U, pre, status, mode, worlds, cplx)
    try:
        out = apply_restrictions(pre, default_restrictions=dr) if dr is not None else apply_restrictions(pre)
        accepted = True
    except Exception as ex:
        accepted = False
        ctx.count("rejected")
        ctx.covered("rejected_with", type(ex).__name__)
    if "ambiguous" in status or "nested" in status:
        ctx.count("ambiguity_checks")
        if accepted and mode == "default":
            what = "doubly-restricted" if "nested" in status else "unrestricted-side-dependent-quantity"
            culprit = _ambiguous_terminal(pre, worlds) if what != "doubly-restricted" else "Restricted(Restricted)"
            ctx.violation(f"C17/accepted-{what}/{culprit}", f"apply_restrictions with default restrictions accepted an integrand with a {what}",
                          {"input": str(pre)[:1200], "output": str(out)[:800]})
        elif accepted:
            ctx.count("propagate_mode_accepts_ambiguous_input")  # allowed: propagation only
        else:
            ctx.count("ambiguous_input_rejected")
        return
    if not accepted:
        ctx.count("well_defined_input_rejected")
        return
    if any(s != "ok" for s in status):
        ctx.count("input_not_evaluable")
        return
    ctx.count("accepted")
    vs = oracle.preserved(pre, out, worlds)
    count_verdicts(ctx, vs)
    kinds = [v.kind for v in vs]
    verdict = oracle.decide(vs)
    if "output-ambiguous" in kinds:
        verdict = "violated"
    ctx.count("case_" + verdict)
    if verdict == "violated":
        bad = next(v for v in vs if v.kind in ("disagree", "output-ambiguous"))
        culprit = _localise(pre, dr, worlds)
        ctx.violation(f"C17/apply_restrictions-{mode}/{culprit}" + ("/manifold" if gdim > E.TD[cell] else ""),
                      f"apply_restrictions changed the two-sided value ({bad.kind}, rel. err {bad.err}, {bad.why})",
                      {"input": str(pre)[:1200], "output": str(out)[:1200], "world": worlds[0].describe()})
        return
    if verdict == "held":
        ctx.covered("modes_held", mode)
        if node_classes(pre) & {"PositiveRestricted", "NegativeRestricted"} or unr:
            ctx.add_distinct((mode, skeleton(pre, 3), cell, gdim, bool(unr)))
        ctx.sample({"mode": mode, "cell": [cell, gdim], "left_unrestricted_prob": unr, "conforming_world": conforming, "input": str(pre)[:240]})
        # structure: every side-dependent terminal restricted exactly once (default mode)
        if mode == "default":
            ctx.count("structure_checks")
            gen_worlds = [World(rng, cell, gdim, "interior_facet", cplx, conforming=True) for _ in range(2)]
            for t, depth in restriction_depths(out):
                if depth > 1:
                    ctx.violation(f"C17/output-restricted-twice/{type(t).__name__}", "a terminal ends up under two Restricted nodes", {"output": str(out)[:800]})
                    break
                if depth == 0:
                    sd = side_dependent(t, gen_worlds)
                    if sd:
                        ctx.violation(f"C17/output-unrestricted-side-dependent/{type(t).__name__}", "a side-dependent terminal is left unrestricted", {"output": str(out)[:800]})
                        break


def pipeline_route(ctx, rng, U, pre, status, mode, worlds, cplx):
    """The same integrand through compute_form_data, under dS and under the interior facet measures of extruded meshes
    (dS_h, dS_v): interior facet integrals of every name get their restrictions propagated / checked."""
    from ufl.algorithms import compute_form_data

    itn = rng.choice(["interior_facet", "interior_facet_horiz", "interior_facet_vert", "interior_facet_horiz", "interior_facet_vert"])
    meas = {"interior_facet": ufl.dS, "interior_facet_horiz": ufl.dS_h, "interior_facet_vert": ufl.dS_v}[itn]
    tag = f"compute_form_data:{itn}"
    ctx.count("pipeline_route")
    try:
        form = pre * meas(domain=U.mesh)
        fd = compute_form_data(form, do_apply_function_pullbacks=False, do_apply_geometry_lowering=False, do_apply_integral_scaling=False,
                               do_estimate_degrees=False, do_append_everywhere_integrals=False, do_replace_functions=False, complex_mode=cplx,
                               do_apply_restrictions=True, do_apply_default_restrictions=(mode == "default"))
        outs = [itg.integrand() for ida in fd.integral_data for itg in ida.integrals]
        accepted = True
    except BaseException as ex:
        if isinstance(ex, (KeyboardInterrupt, SystemExit)) or type(ex).__name__ == "CaseTimeout":
            raise
        accepted = False
        outs = []
        ctx.covered("pipeline_rejected_with", type(ex).__name__)
    if "ambiguous" in status or "nested" in status:
        ctx.count("pipeline_ambiguity_checks")
        if accepted and mode == "default" and outs:
            what = "doubly-restricted" if "nested" in status else "unrestricted-side-dependent-quantity"
            culprit = _ambiguous_terminal(pre, worlds) if what != "doubly-restricted" else "Restricted(Restricted)"
            ctx.violation(f"C17/accepted-{what}/{culprit}/{tag}", f"compute_form_data (default restrictions on) accepted a {itn} integrand with a {what}",
                          {"input": str(pre)[:1200], "output": str(outs[0])[:800]})
        return
    if not accepted or len(outs) != 1 or any(s_ != "ok" for s_ in status):
        ctx.count("pipeline_not_judged")
        return
    out = outs[0]
    vs = oracle.preserved(pre, out, worlds)
    kinds = [v.kind for v in vs]
    verdict = oracle.decide(vs)
    if "output-ambiguous" in kinds:
        verdict = "violated"
    ctx.count("pipeline_" + verdict)
    if verdict == "violated":
        bad = next(v for v in vs if v.kind in ("disagree", "output-ambiguous"))
        ctx.violation(f"C17/apply_restrictions-{mode}/value/{tag}", f"compute_form_data changed the two-sided value of a {itn} integrand ({bad.kind}, rel. err {bad.err}, {bad.why})",
                      {"input": str(pre)[:1200], "output": str(out)[:1200]})
        return
    if verdict == "held" and mode == "default":
        ctx.count("pipeline_structure_checks")
        ctx.covered("pipeline_itypes_held", itn)
        gen_worlds = [World(rng, U.cell, U.gdim, "interior_facet", cplx, conforming=True) for _ in range(2)]
        for t, depth in restriction_depths(out):
            if depth > 1:
                ctx.violation(f"C17/output-restricted-twice/{type(t).__name__}/{tag}", "a terminal ends up under two Restricted nodes", {"output": str(out)[:800]})
                break
            if depth == 0 and side_dependent(t, gen_worlds):
                ctx.violation(f"C17/output-unrestricted-side-dependent/{type(t).__name__}/{tag}", "a side-dependent terminal is left unrestricted", {"output": str(out)[:800]})
                break
        # propagation reaches the terminals: no Restricted node above a non-terminal
        for sub in _restricted_nonterminals(out):
            ctx.violation(f"C17/restriction-not-propagated/{sub}/{tag}", f"after compute_form_data a restriction still sits on a {sub} node", {"output": str(out)[:800]})
            break


def _restricted_nonterminals(e):
    seen = set()
    stack = [e]
    while stack:
        o = stack.pop()
        if id(o) in seen:
            continue
        seen.add(id(o))
        if type(o).__name__ in ("PositiveRestricted", "NegativeRestricted"):
            t = o.ufl_operands[0]
            while type(t).__name__ in ("Grad", "ReferenceGrad", "ReferenceValue", "Conj", "Real", "Imag"):
                t = t.ufl_operands[0]
            if not t._ufl_is_terminal_:
                yield type(t).__name__
        stack.extend(o.ufl_operands)


def _ambiguous_terminal(e, worlds):
    for t, depth in restriction_depths(e):
        if depth == 0 and side_dependent(t, worlds):
            return type(t).__name__
    # derivatives of continuous fields are side dependent as well
    from ..passcheck import subexpressions

    for sub in subexpressions(e):
        if type(sub).__name__ in ("Grad", "ReferenceGrad"):
            return type(sub).__name__ + "(" + type(sub.ufl_operands[0]).__name__ + ")"
    return "expression"


def _localise(pre, dr, worlds):
    from ..passcheck import subexpressions

    n = 0
    for sub in subexpressions(pre):
        nm = type(sub).__name__
        if nm in ("MultiIndex", "Label", "ExprList", "ExprMapping") or nm.endswith("Condition") or nm in ("EQ", "NE", "LT", "GT", "LE", "GE"):
            continue
        n += 1
        if n > 300:
            break
        try:
            out = apply_restrictions(sub, default_restrictions=dr) if dr is not None else apply_restrictions(sub)
            vs = oracle.preserved(sub, out, worlds[:2])
        except Exception:
            continue
        if any(v.kind in ("disagree", "output-ambiguous") for v in vs):
            return skeleton(sub, 1)
    return skeleton(pre, 1)


# ---- additional workload (thorough tier): the repository's own test-suite with this property's passes monitored
EXTRA_JOBS = {"thorough": ["suite"]}
SUITE_TARGETS = ['apply_restrictions']


def extra_suite(ctx):
    """Every call the repository's tests make to the monitored passes is judged by the same value oracle (vf/suitemon.py)."""
    from ..suite_driver import run_suite

    run_suite(ctx, SUITE_TARGETS, "C17")
