"""C09 - Jacobian product cancellation preserves values.

Events: cancel_jacobian_products(e) and each of its three traversals (JacobianCanceller,
IdentityEliminator, ReciprocalCanceller) separately, on
 (a) realistic inputs: generated Piola-element expressions taken through the real pipeline steps that
     precede the cancellation in compute_form_data (derivatives, pullbacks, geometry lowering with
     J/K/detJ preserved, component tensor removal), and
 (b) hostile inputs: index sums / products over J[a,k], K[k,b], Identity[a,k] and arbitrary factors with
     nested sums, re-used Index objects, repeated factors; powers and reciprocals with integer,
     half-integer, negative and float exponents over bases that take negative values; manifolds (J K != I).
Oracle: same declared shape / free indices and same value in the reference interpreter on random
cells including negatively oriented ones and immersed manifolds (50-digit confirmation).
"""

import ufl
from ufl import Identity, Jacobian, JacobianDeterminant, JacobianInverse, as_tensor
from ufl.algorithms.apply_derivatives import apply_derivatives
from ufl.algorithms.apply_algebra_lowering import apply_algebra_lowering
from ufl.algorithms.apply_function_pullbacks import apply_function_pullbacks
from ufl.algorithms.apply_geometry_lowering import apply_geometry_lowering
from ufl.algorithms import cancel_jacobian_products as cjp
from ufl.algorithms.map_integrands import map_integrands
from ufl.algorithms.remove_component_tensors import remove_component_tensors

from .. import elements as E
from .. import oracle
from ..gen import Gen, Universe
from ..passcheck import check_pass, node_classes, skeleton

LEVEL = "exploration"
ENGINE = "seval"
TECHNIQUE = "differential runtime monitoring of cancel_jacobian_products (and each traversal) against the reference interpreter on pipeline-derived and hostile inputs"
LEVEL_TEXT = (
    "The real cancellation pass and its three traversals are run on expressions produced by the real preceding pipeline "
    "steps for Piola elements and on hostile hand-shaped index sums / power products; output and input are evaluated on "
    "random affine cells (both orientations, immersed manifolds, sign-changing coefficients) and compared, with 50-digit "
    "confirmation.  Exploration over generated cases."
)
LEVEL_NOTE = "trusted: vf/seval.py; bounds: depth<=3 operands, exponents from a fixed list, affine simplex cells"
RULE = (
    "case i = (route realistic/hostile template, traversal, cell incl. manifolds, generated factors); distinct = (traversal, template, "
    "skeleton depth 3, cell); non-trivial = the pass changed the expression"
)
ASSUMPTIONS = [
    "principal branches for non-integer powers (numpy / mpmath)",
    "on manifolds K is the pseudo-inverse: K J = I (tdim) but J K != I",
]
BUDGET = {"quick": 50, "thorough": 450}
NCASES = {"quick": 3000, "thorough": 60000}
FLOORS = {'quick': {'case_held': 400, 'nontrivial': 150}, 'thorough': {'case_held': 9000, 'nontrivial': 3000, 'suite:cancel_jacobian_products:held': 1}}
COVER_FLOORS = {"quick": {"templates_held": ["realistic", "JK", "KJ", "identity", "nested", "powers", "recip", "two-meshes"]}, "thorough": {"templates_held": ["realistic", "JK", "KJ", "identity", "nested", "powers", "recip", "reuse", "two-meshes"]}}
CELLS = [("interval", 1), ("interval", 2), ("triangle", 2), ("triangle", 2), ("triangle", 3), ("tetrahedron", 3)]
TEMPLATES = ['realistic', 'realistic', 'JK', 'KJ', 'identity', 'nested', 'powers', 'recip', 'reuse', 'two-meshes']
TRAV = ["full", "full", "JacobianCanceller", "IdentityEliminator", "ReciprocalCanceller"]
EXPONENTS = [2, 3, 0.5, 1.5, -1, -2, -0.5, 2.0, 0.25, -1.5, 4, 1]


def pipeline(e):
    e = apply_algebra_lowering(e)
    e = apply_derivatives(e)
    e = apply_function_pullbacks(e)
    keep = (ufl.classes.Jacobian, ufl.classes.JacobianInverse, ufl.classes.JacobianDeterminant)
    e = apply_geometry_lowering(e, keep)
    e = apply_derivatives(e)
    e = apply_geometry_lowering(e, keep)
    e = apply_derivatives(e)
    e = remove_component_tensors(e)
    return e


def hostile(rng, U, G, name):
    i, j, k, l = U.idx  # noqa: E741
    g, t = U.gdim, U.tdim
    mesh = U.mesh
    Jm, K, detJ = Jacobian(mesh), JacobianInverse(mesh), JacobianDeterminant(mesh)
    sc = lambda: G.expr((), 1)
    vec = lambda n: G.expr((n,), 1)
    mat = lambda m, n: G.expr((m, n), 1)
    if name == "JK":
        A = mat(g, g)
        return Jm[i, k] * K[k, j] * A[i, j] + (Jm[i, k] * K[k, j]) * A[j, i] * sc()
    if name == "KJ":
        A = mat(t, t)
        u = vec(t)
        return K[i, k] * Jm[k, j] * A[i, j] + K[i, k] * (Jm[k, j] * u[j]) * u[i]
    if name == "identity":
        n = rng.choice([2, 3])
        u, w = vec(n), vec(n)
        A = mat(n, n)
        return Identity(n)[i, k] * u[k] * w[i] + Identity(n)[k, j] * A[j, k] + Identity(n)[0, 1] * sc() + Identity(n)[1, 1] * sc() + Identity(n)[i, i]
    if name == "nested":
        n = rng.choice([2, 3])
        u, w = vec(n), vec(n)
        A, Bm = mat(n, n), mat(n, n)
        # sum_k I[i,k] * (sum_j A[k,j] w[j]) with the inner sum using an index that is also free outside
        inner = A[k, j] * w[j]
        return Identity(n)[i, k] * inner * u[i] + Identity(n)[j, k] * (Bm[k, i] * u[i]) * w[j]
    if name == "reuse":
        n = t
        A = mat(t, t)
        u = vec(g)
        v = vec(t)
        T = as_tensor(K[i, k] * u[k], (i,))  # K u
        return (Jm[j, i] * T[i]) * u[j] + (K[i, j] * Jm[j, k]) * A[i, k] * (K[k, j] * u[j]) * v[k] if False else (Jm[j, i] * T[i]) * u[j] + (K[i, j] * Jm[j, k]) * A[i, k]
    if name == "two-meshes":
        # Jacobians / inverses of two different meshes with the same cell: nothing may cancel across the meshes
        mesh2 = E.mesh_for(U.cell, U.gdim)
        J2, K2 = Jacobian(mesh2), JacobianInverse(mesh2)
        U.mesh2 = mesh2
        A = mat(g, g)
        B2 = mat(t, t)
        u = vec(g)
        c = rng.randrange(4)
        if c == 0:
            return Jm[i, k] * K2[k, j] * A[i, j] + (J2[i, k] * K[k, j]) * A[j, i]
        if c == 1:
            return K2[i, k] * Jm[k, j] * B2[i, j] + K[i, k] * (J2[k, j] * B2[j, i])
        if c == 2:
            return (K2[i, k] * u[k]) * (K[i, j] * u[j]) + Jm[i, k] * K[k, j] * A[i, j] + J2[i, k] * K2[k, j] * A[j, i]
        return ufl.inner(ufl.dot(Jm, K2), A) + ufl.inner(ufl.dot(K2, Jm), B2) * sc()
    if name == "powers":
        f = sc()
        base = rng.choice([f, detJ, f * detJ, 2 + f])
        p, q = rng.choice(EXPONENTS), rng.choice(EXPONENTS)
        r = rng.choice(EXPONENTS)
        return ((base**p) ** q) * (1 / base) ** abs(r) * sc() + (base**p) * (base**q) / base
    if name == "recip":
        f = sc()
        h = sc()
        p = rng.choice([1, 2, 3])
        return detJ**p * (1 / detJ) ** p * f + (f * f) * (1 / f) * h + (1 / detJ) * h * detJ * (1 / abs(detJ)) + (f**2) ** 0.5 * (1 / f)
    raise ValueError(name)


def case(ctx, i, rng):
    cell, gdim = rng.choice(CELLS)
    template = TEMPLATES[i % len(TEMPLATES)] if rng.random() < 0.8 else rng.choice(TEMPLATES)
    trav = rng.choice(TRAV)
    U = Universe(rng, cell, gdim, "cell", False)
    G = Gen(U, rng, deriv=1 if template == "realistic" else 0, cond=False, math=rng.random() < 0.4, geom=False, cplx=False)
    try:
        if template == "realistic":
            names = [n for n in U.spaces if not U.spaces[n].ufl_element().pullback.is_identity]
            f = U.coef(rng.choice(names), 0)
            G.extra = [f, U.coef(rng.choice(names), 1)]
            G.extra_prob = 0.6
            e = G.expr((), rng.choice([2, 3]))
            if rng.random() < 0.6 and f.ufl_shape and f.ufl_shape[-1] == gdim:
                e = e + ufl.div(f)[tuple(0 for _ in ufl.div(f).ufl_shape)] * G.expr((), 1) if ufl.div(f).ufl_shape else e + ufl.div(f) * G.expr((), 1)
            pre = pipeline(e)
        else:
            pre = hostile(rng, U, G, template)
            pre = apply_algebra_lowering(pre)
            pre = remove_component_tensors(pre) if rng.random() < 0.7 else pre
    except Exception as ex:
        ctx.count("build_rejected")
        ctx.covered("build_rejected_with", type(ex).__name__ + ":" + template)
        return
    if trav == "full":
        fn = cjp.cancel_jacobian_products
    else:
        cls = getattr(cjp, trav)
        fn = lambda o: map_integrands(cls(), o)
    worlds = oracle.worlds_for(rng, cell, gdim, "cell", False, n=3)
    if template == "two-meshes":
        for w in worlds:
            w.mesh = U.mesh
            w.others = {U.mesh2: oracle.World(rng, cell, gdim, "cell", False)}
    verdict, out = check_pass(ctx, "C09", trav if trav != "full" else "cancel_jacobian_products", pre, fn, worlds,
                              extra_key="/manifold" if gdim > E.TD[cell] else "")
    if verdict == "held":
        ctx.covered("templates_held", template)
        if out is not pre and str(out) != str(pre):
            ctx.count("nontrivial")
            ctx.add_distinct((trav, template, skeleton(pre, 3), cell, gdim))
        ctx.sample({"template": template, "traversal": trav, "cell": [cell, gdim], "input": str(pre)[:260], "output": str(out)[:200]})


# ---- additional workload (thorough tier): the repository's own test-suite with this property's passes monitored
EXTRA_JOBS = {"thorough": ["suite"]}
SUITE_TARGETS = ['cancel_jacobian_products']


def extra_suite(ctx):
    """Every call the repository's tests make to the monitored passes is judged by the same value oracle (vf/suitemon.py)."""
    from ..suite_driver import run_suite

    run_suite(ctx, SUITE_TARGETS, "C09")
