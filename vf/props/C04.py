"""C04 - diff() with respect to variables computes partial derivatives.

Events: expand_derivatives(diff(f, v)) for v = variable(e) of scalar / vector / tensor shape, nested
variables (a variable whose defining expression contains another variable), repeated diff, and
diff with respect to a Coefficient (its gradient held fixed).
Oracle: the VariableDerivative node is evaluated by definition: for every component c of v the value
of the labelled variable (or of the coefficient) is perturbed by eps*e_c, constant in space, and the
eps-coefficient of f is read off (jets); shape f.shape + v.shape is cross-checked structurally.
"""

import ufl
from ufl.algorithms import expand_derivatives

from .. import elements as E
from .. import oracle
from ..gen import Gen, Universe
from ..passcheck import check_pass, node_classes, skeleton
from .C03 import derivative_targets_ok

LEVEL = "exploration"
ENGINE = "seval"
TECHNIQUE = "differential runtime monitoring: VariableDerivative evaluated by definition with dual numbers vs. value of the real expansion"
LEVEL_TEXT = (
    "expand_derivatives is run on generated diff(f, v) expressions (scalar/vector/tensor variables, nested variables, "
    "second derivatives, differentiation with respect to coefficients) and the value of the expansion is compared with "
    "the partial derivative obtained by perturbing the variable's value component by component in a dual-number "
    "interpreter, at random points of random cells, real and complex, with 50-digit confirmation."
)
LEVEL_NOTE = "trusted: jet algebra and vf/seval.py; bounds: variable rank<=2, depth<=4, at most two nested diff"
RULE = (
    "case i = (variable shapes, nesting, expression f containing the variables, order of differentiation, cell, real/complex); "
    "distinct = skeleton(depth 3) of f + variable shapes + kind; non-trivial = f contains the differentiation variable"
)
ASSUMPTIONS = [
    "diff with respect to v = variable(e) sees only occurrences through the Variable node; a bare occurrence of e is independent (documented)",
    "a perturbation of the variable is constant in space, so gradients of coefficients are held fixed (documented for coefficients)",
]
BUDGET = {"quick": 45, "thorough": 420}
NCASES = {"quick": 3000, "thorough": 60000}
FLOORS = {"quick": {"case_held": 400, "nontrivial": 300, "curved_held": 40}, "thorough": {"case_held": 8000, "nontrivial": 6000, "curved_held": 500}}
COVER_FLOORS = {"quick": {"kinds": ["variable", "nested", "second", "coefficient", "coef-and-variable", "twin-variables", "variable-of-x"]}, "thorough": {"kinds": ["variable", "nested", "second", "coefficient", "mixed-second", "coef-and-variable", "twin-variables", "variable-of-x"]}}
CELLS = [("interval", 1), ("triangle", 2), ("triangle", 2), ("triangle", 3), ("tetrahedron", 3)]
VSHAPES = [(), (), (2,), (3,), (2, 2), (2, 3)]


def contains_label(e, label):
    seen = set()

    def walk(o):
        if id(o) in seen:
            return False
        seen.add(id(o))
        if type(o).__name__ == "Variable" and o.ufl_operands[1] == label:
            return True
        return any(walk(c) for c in o.ufl_operands)

    return walk(e)


def contains(e, t):
    seen = set()

    def walk(o):
        if id(o) in seen:
            return False
        seen.add(id(o))
        if o is t or (o._ufl_is_terminal_ and o == t):
            return True
        return any(walk(c) for c in o.ufl_operands)

    return walk(e)


def case(ctx, i, rng, curved=None):
    # about one case in ten on a non-affine cell (vf.world.CurvedWorld): "all field values" includes fields that are
    # not polynomials in x and geometry that varies over the cell
    curved = (rng.random() < 0.1) if curved is None else curved
    cell, gdim = rng.choice(CELLS)
    cplx = rng.random() < 0.25
    if curved:
        cell, gdim = rng.choice([("interval", 1), ("triangle", 2), ("triangle", 2), ("tetrahedron", 3)])
    U = Universe(rng, cell, gdim, "cell", cplx, coord_degree=2 if curved else 1)
    kind = rng.choice(["variable", "variable", "nested", "second", "coefficient", "mixed-second", "coef-and-variable", "twin-variables", "variable-of-x", "variable-of-variable"])
    e_def_override = None
    mk = lambda **kw: Gen(U, rng, cplx=cplx, deriv=rng.choice([0, 1]), cond=rng.random() < 0.3, math=rng.random() < 0.8, geom=rng.random() < 0.4, **kw)
    try:
        G1 = mk()
        s1 = rng.choice(VSHAPES)
        if kind == "coef-and-variable":
            # a coefficient and a variable of the same shape whose numbers (coefficient count / label count)
            # coincide, both differentiated with respect to in ONE expansion
            names = [n for n in U.spaces if U.spaces[n].ufl_element().pullback.is_identity]
            cname = rng.choice(names)
            s1 = tuple(U.spaces[cname].value_shape)
        v1 = ufl.variable(G1.expr(s1, rng.choice([0, 1, 2])))
        vs = [v1]
        if kind in ("nested", "mixed-second"):
            G2 = mk()
            G2.extra = [v1]
            G2.extra_prob = 0.7
            v2 = ufl.variable(G2.expr(rng.choice(VSHAPES), rng.choice([1, 2])))
            vs.append(v2)
        Gf = mk()
        Gf.extra = list(vs)
        Gf.extra_prob = 0.6
        fshape = rng.choice([(), (), (2,), (gdim,), (2, 2)])
        if kind == "twin-variables":
            # two different variables (labels) wrapping the SAME expression, both differentiated in one expansion
            v2 = ufl.variable(v1.ufl_operands[0])
            vs = [v1, v2]
            Gf.extra = [v1, v2]
            Gf.extra_prob = 0.7
            f = Gf.expr(fshape, rng.choice([2, 3]))
            target = v2
            r = rng.random()
            if r < 0.4:
                e = ufl.diff(f, v1) + 2 * ufl.diff(f, v2)
            elif r < 0.7:
                e = ufl.diff(ufl.diff(f, v1), v2)
            else:
                e = ufl.diff(ufl.diff(f, v2), v1) - ufl.diff(ufl.diff(f, v1), v1)
        elif kind == "variable-of-variable":
            # v2 = variable(v1) is a NEW variable that happens to wrap a variable: f = g(v1) + h(v2); the partial derivative
            # with respect to v2 holds the g part fixed, so it must equal the derivative of the h part alone (g never
            # contains v2 by construction)
            v2 = ufl.variable(v1)
            vs = [v1, v2]
            Ga, Gb = mk(), mk()
            Ga.extra, Ga.extra_prob = [v1], 0.8
            Gb.extra, Gb.extra_prob = [v2], 0.8
            g_part = Ga.expr(fshape, rng.choice([1, 2]))
            if not contains_label(g_part, v1.ufl_operands[1]):
                g_part = g_part + (v1[tuple(rng.randrange(d) for d in v1.ufl_shape)] if v1.ufl_shape else v1) ** 2 * ufl.as_ufl(1.0)
                if fshape:
                    raise ValueError("no v1 in the g part")
            h_part = Gb.expr(fshape, rng.choice([1, 2]))
            f = g_part + h_part
            target = v2
            e = ufl.diff(f, v2)
            e_def_override = ufl.classes.VariableDerivative(h_part, v2)
        elif kind == "variable-of-x":
            # the variable wraps the spatial coordinate; f also depends on position in other ways (raw x, coefficients)
            X = ufl.variable(U.x)
            vs = [X]
            Gf.extra = [X, X, U.x]
            Gf.extra_prob = 0.6
            f = Gf.expr(fshape, rng.choice([2, 3]))
            target = X
            e = ufl.diff(f, X)
        elif kind == "coef-and-variable":
            u = ufl.Coefficient(U.spaces[cname], count=v1.ufl_operands[1].count())
            Gf.extra = [u, v1]
            Gf.extra_prob = 0.7
            f = Gf.expr(fshape, rng.choice([2, 3]))
            target = v1
            r = rng.random()
            if r < 0.4:
                e = ufl.diff(f, u) + 2 * ufl.diff(f, v1)
            elif r < 0.7:
                e = ufl.diff(ufl.diff(f, u), v1)
            else:
                e = ufl.diff(ufl.diff(f, v1), u)
        elif kind == "coefficient":
            names = [n for n in U.spaces if U.spaces[n].ufl_element().pullback.is_identity]
            u = U.coef(rng.choice(names), 0)
            Gf.extra = [u]
            f = Gf.expr(fshape, rng.choice([2, 3]))
            target = u
            e = ufl.diff(f, u)
        else:
            f = Gf.expr(fshape, rng.choice([2, 3]))
            target = rng.choice(vs) if kind != "nested" else vs[0]
            e = ufl.diff(f, target)
            if kind == "second":
                e = ufl.diff(e, target)
            if kind == "mixed-second":
                e = ufl.diff(e, vs[0] if target is vs[1] else vs[1])
    except Exception as ex:
        ctx.count("build_rejected")
        ctx.covered("build_rejected_with", type(ex).__name__)
        return
    if type(e).__name__ != "VariableDerivative":
        ctx.count("folded_at_construction")
    dep = contains(f, target) if kind == "coefficient" else contains_label(f, target.ufl_operands[1])
    if curved:
        from ..world import CurvedWorld

        worlds = [CurvedWorld(rng, cell, gdim, cplx) for _ in range(3)]
    else:
        worlds = oracle.worlds_for(rng, cell, gdim, "cell", cplx, n=3)
    e_def = e
    if kind in ("variable", "coefficient", "variable-of-x") and type(target).__name__ in ("Variable", "Coefficient"):
        # the defining node built directly, so that a diff() that silently returns something else (e.g. the total
        # gradient for a variable that wraps the spatial coordinate) is seen as well; S evaluates it by definition
        try:
            e_def = ufl.classes.VariableDerivative(f, target)
        except Exception:
            e_def = e
    if e_def_override is not None:
        e_def = e_def_override
    verdict, out = check_pass(ctx, "C04", "expand_derivatives", e_def, lambda _x: expand_derivatives(e), worlds, extra_key="/" + kind + ("/non-affine" if curved else ""), localise=e_def is e)
    if curved:
        ctx.count("curved_" + verdict.replace("-", "_"))
    ctx.covered("kinds", kind) if verdict == "held" else None
    if verdict == "held":
        if dep:
            ctx.count("nontrivial")
            ctx.add_distinct((skeleton(f, 3), tuple(v.ufl_shape for v in vs), kind, cplx))
        ctx.sample({"kind": kind, "variable_shapes": [list(v.ufl_shape) for v in vs], "f_shape": list(fshape), "depends": dep, "diff": str(e)[:240]})
        bad = derivative_targets_ok(out)
        if bad:
            ctx.violation(f"C04/expand_derivatives/derivative-left/{bad[0]}", f"output still contains {bad[:4]}", {"input": str(e)[:800]})
