"""C06 - lowering compound tensor algebra preserves values.

Events: apply_algebra_lowering(e) for every compound operator over operands of every admissible
shape (with and without free indices, real and complex values), and direct calls of the helper
expansions in ufl.compound_expressions (determinant/inverse/cofactor/deviatoric/adjugate and the
pseudo-determinant/-inverse of rectangular matrices).
Oracle: the reference interpreter, whose compound nodes are defined by numpy.linalg / textbook
definitions (det, inv, cofactor by signed minors, inner conjugates its second argument, outer its
first); pseudo-determinant sqrt(det(A^T A)) and numpy.linalg.pinv computed from the value of A.
"""

import numpy as np

import ufl
from ufl import compound_expressions as ce
from ufl.algorithms.apply_algebra_lowering import apply_algebra_lowering

from .. import oracle
from ..gen import Gen, Universe
from ..passcheck import check_pass, count_verdicts, skeleton
from ..seval import CB, S, Result
from ..world import World

LEVEL = "exploration"
ENGINE = "seval"
TECHNIQUE = "differential runtime monitoring: value of the real pass output vs. reference interpreter (numpy.linalg semantics) on random cells/fields, 50-digit confirmation"
LEVEL_TEXT = (
    "Each run applies the real apply_algebra_lowering (and the compound_expressions helpers) to thousands of generated "
    "operands covering every compound operator and operand shape up to 4x4 / rectangular, real and complex data, with "
    "and without free indices, and compares value, shape and free indices with an independent interpreter at several "
    "random points; a mismatch is confirmed at 50 digits before it is reported.  Exploration: holds on the executions observed."
)
LEVEL_NOTE = "trusted: vf/seval.py node semantics, numpy.linalg, mpmath; bounds: rank<=3 operands, matrices<=4x4, affine simplex cells"
RULE = (
    "case i = (operator, operand shapes, operand expressions from the seeded generator, cell, real/complex); distinct = "
    "distinct (operator, operand shapes, free-index flag, complex flag, operand skeleton); non-trivial = the operator node "
    "survives construction (no constant folding) and the pass was accepted"
)
ASSUMPTIONS = [
    "inner(a,b) conjugates b, outer(a,b) conjugates a (documented UFL convention)",
    "pseudo-determinant / pseudo-inverse are judged for real matrices only (Jacobians)",
]
BUDGET = {"quick": 45, "thorough": 420}
NCASES = {"quick": 6000, "thorough": 120000}
FLOORS = {'quick': {'case_held': 1500, 'helper_held': 300, 'convention_held': 150}, 'thorough': {'case_held': 15000, 'helper_held': 3000, 'convention_held': 1500, 'suite:apply_algebra_lowering:held': 3000, 'suite:apply_algebra_lowering:held_and_changed': 500}}
COVER_FLOORS = {
    "quick": {"operators": ["dot", "inner", "outer", "cross", "perp", "transpose", "tr", "det", "inv", "cofac", "dev", "skew", "sym", "div", "nabla_div", "nabla_grad", "curl"]},
    "thorough": {"operators": ["dot", "inner", "outer", "cross", "perp", "transpose", "tr", "det", "inv", "cofac", "dev", "skew", "sym", "div", "nabla_div", "nabla_grad", "curl"]},
}

CELLS = [("interval", 1), ("interval", 2), ("triangle", 2), ("triangle", 3), ("tetrahedron", 3)]
OPS = ["dot", "inner", "outer", "cross", "perp", "transpose", "tr", "det", "inv", "cofac", "dev", "skew", "sym", "div", "nabla_div", "nabla_grad", "curl"]


def dense(G, U, rng, shape, fields):
    """A generic dense operand: random constant tensor plus a generated expression."""
    c = U.const(shape, rng.randrange(2)) if np.prod(shape, dtype=int) <= 16 else None
    depth = rng.choice([0, 1, 1, 2])
    e = G.expr(shape, depth)
    if c is not None and rng.random() < 0.7:
        e = e + c if rng.random() < 0.5 else c + 0.5 * e
    return e


def sparse(G, U, rng, n, for_inv):
    """A matrix written entry by entry (as_matrix of scalars) with literal zeros at random places - the lowering
    tables see structural Zero entries.  For inv the diagonal is kept dominant."""
    rows = []
    for r in range(n):
        row = []
        for c in range(n):
            z = rng.random() < 0.35
            if for_inv and r == c:
                row.append(4 + 0.25 * ufl.tanh(G.expr((), 0)))
            elif z:
                row.append(0)
            else:
                e = G.expr((), rng.choice([0, 0, 1]))
                row.append(0.5 * ufl.tanh(e) if for_inv else e)
        rows.append(row)
    if all(x == 0 for row in rows for x in row if not hasattr(x, "ufl_shape")) and all(not hasattr(x, "ufl_shape") for row in rows for x in row):
        rows[0][0] = G.expr((), 0)
    return ufl.as_matrix(rows)


def build(rng, U, G, op):
    g = U.gdim
    fi = rng.random() < 0.25
    w = None

    def maybe_fi(a):
        # give the operand a free index by scaling with a component of a vector
        nonlocal w
        if fi:
            i = rng.choice(U.idx)
            w = G.expr((rng.choice([2, 3]),), 1)[i]
            return a * w
        return a

    if op == "dot":
        ra, rb = rng.choice([(1, 1), (2, 1), (1, 2), (2, 2), (3, 1), (2, 3)])
        k = rng.choice([2, 3])
        sa = tuple(rng.choice([2, 3]) for _ in range(ra - 1)) + (k,)
        sb = (k,) + tuple(rng.choice([2, 3]) for _ in range(rb - 1))
        return ufl.dot(maybe_fi(dense(G, U, rng, sa, True)), dense(G, U, rng, sb, True)), (sa, sb)
    if op == "inner":
        sh = rng.choice([(), (2,), (3,), (2, 2), (3, 2), (2, 2, 2), (3, 3)])
        return ufl.inner(maybe_fi(dense(G, U, rng, sh, True)), dense(G, U, rng, sh, True)), (sh, sh)
    if op == "outer":
        sa = rng.choice([(), (2,), (3,), (2, 2)])
        sb = rng.choice([(2,), (3,), (2, 3)])
        return ufl.outer(maybe_fi(dense(G, U, rng, sa, True)), dense(G, U, rng, sb, True)), (sa, sb)
    if op == "cross":
        return ufl.cross(maybe_fi(dense(G, U, rng, (3,), True)), dense(G, U, rng, (3,), True)), ((3,), (3,))
    if op == "perp":
        return ufl.perp(maybe_fi(dense(G, U, rng, (2,), True))), ((2,),)
    if op == "transpose":
        sh = rng.choice([(2, 2), (2, 3), (3, 2), (3, 3), (4, 2)])
        return ufl.transpose(maybe_fi(dense(G, U, rng, sh, True))), (sh,)
    if op in ("tr", "det", "inv", "cofac", "dev", "skew", "sym"):
        n = rng.choice({"tr": [1, 2, 3, 4], "det": [1, 2, 3, 4], "inv": [1, 2, 3, 4], "cofac": [2, 3, 4], "dev": [2, 3], "skew": [2, 3, 4], "sym": [2, 3, 4]}[op])
        if n >= 2 and rng.random() < 0.3:
            A = sparse(G, U, rng, n, op == "inv")
        else:
            A = dense(G, U, rng, (n, n), True)
            if op in ("inv",):
                A = A + 5 * ufl.Identity(n) if rng.random() < 0.5 else A
        return getattr(ufl, op)(maybe_fi(A) if op not in ("det", "inv", "cofac") or not fi else A), ((n, n),)
    if op in ("div", "nabla_div"):
        sh = rng.choice([(g,), (2, g), (g, g)]) if op == "div" else rng.choice([(g,), (g, 2), (g, g)])
        return getattr(ufl, op)(G.expr(sh, rng.choice([1, 2]))), (sh,)
    if op == "nabla_grad":
        sh = rng.choice([(), (g,), (2,), (2, 2)])
        return ufl.nabla_grad(G.expr(sh, rng.choice([1, 2]))), (sh,)
    if op == "curl":
        if g == 3:
            return ufl.curl(G.expr((3,), rng.choice([1, 2]))), ((3,),)
        if g == 2:
            sh = rng.choice([(), (2,)])
            return ufl.curl(G.expr(sh, rng.choice([1, 2]))), (sh,)
        return None, None
    return None, None


def case(ctx, i, rng):
    cell, gdim = rng.choice(CELLS)
    cplx = rng.random() < 0.4
    U = Universe(rng, cell, gdim, "cell", cplx)
    op = OPS[i % len(OPS)] if rng.random() < 0.8 else rng.choice(OPS)
    diff = op in ("div", "nabla_div", "nabla_grad", "curl")
    G = Gen(U, rng, cplx=cplx, deriv=1 if diff else 0, geom=False, cond=rng.random() < 0.3, math=rng.random() < 0.5)
    r_ = rng.random()
    if r_ < 0.15:
        helper_case(ctx, rng, U, G, cplx)
        return
    if r_ < 0.25:
        convention_case(ctx, rng, U, G, cplx)
        return
    try:
        e, shapes = build(rng, U, G, op)
    except Exception as ex:
        ctx.count("build_rejected")
        ctx.covered("build_rejected_with", type(ex).__name__ + ":" + op)
        return
    if e is None:
        ctx.count("not_applicable")
        return
    ctx.covered("operators", op)
    top = type(e).__name__
    ctx.covered("top_node", top)
    worlds = oracle.worlds_for(rng, cell, gdim, "cell", cplx, n=3)
    verdict, out = check_pass(ctx, "C06", "apply_algebra_lowering", e, apply_algebra_lowering, worlds)
    if verdict == "held":
        ctx.add_distinct((op, shapes, bool(e.ufl_free_indices), cplx, skeleton(e, 2)))
        ctx.sample({"operator": op, "operand_shapes": shapes, "complex": cplx, "cell": [cell, gdim], "input": str(e)[:200]})
        # the output must not contain compound tensor operators any more
        bad = [c for c in _classes(out) if c in COMPOUND]
        if bad:
            ctx.violation(f"C06/apply_algebra_lowering/compound-operator-left/{bad[0]}", f"output still contains {bad}", {"input": str(e)[:500]})


COMPOUND = {"Dot", "Inner", "Outer", "Cross", "Perp", "Transposed", "Trace", "Determinant", "Inverse", "Cofactor", "Deviatoric", "Skew", "Sym", "Div", "NablaDiv", "NablaGrad", "Curl"}


def _classes(e):
    from ..passcheck import node_classes

    return node_classes(e)


def helper_case(ctx, rng, U, G, cplx):
    """Direct calls of the expansions in ufl.compound_expressions."""
    kind = rng.choice(["determinant", "inverse", "cofactor", "deviatoric", "adj", "pseudo_determinant", "pseudo_inverse", "cross", "determinant_rect", "inverse_rect"])
    ctx.covered("helpers", kind)
    real_only = kind.startswith("pseudo") or kind.endswith("_rect")
    if real_only and cplx:
        U = Universe(rng, U.cell, U.gdim, "cell", False)
        G = Gen(U, rng, cplx=False, deriv=0, geom=False, cond=False)
        cplx = False
    if kind in ("determinant", "inverse"):
        n = rng.choice([1, 2, 3, 4])
        shape = (n, n)
    elif kind in ("cofactor", "adj"):
        n = rng.choice([2, 3, 4])
        shape = (n, n)
    elif kind == "deviatoric":
        n = rng.choice([2, 3])
        shape = (n, n)
    elif kind == "cross":
        shape = (3,)
    else:
        shape = rng.choice([(2, 1), (3, 1), (3, 2), (4, 2), (4, 3), (2, 2)])
        if kind.endswith("_rect") and shape[0] == shape[1]:
            shape = (3, 2)
    A = dense(G, U, rng, shape, True)
    try:
        if kind == "cross":
            Bv = dense(G, U, rng, (3,), True)
            out = ce.cross_expr(A, Bv)
        elif kind in ("determinant", "determinant_rect"):
            out = ce.determinant_expr(A)
        elif kind in ("inverse", "inverse_rect"):
            out = ce.inverse_expr(A)
        elif kind == "cofactor":
            out = ce.cofactor_expr(A)
        elif kind == "adj":
            out = ce.adj_expr(A)
        elif kind == "deviatoric":
            out = ce.deviatoric_expr(A)
        elif kind == "pseudo_determinant":
            out = ce.pseudo_determinant_expr(A)
        else:
            out = ce.pseudo_inverse_expr(A)
    except Exception as ex:
        ctx.count("helper_rejected")
        ctx.covered("rejected_with", type(ex).__name__)
        return
    worlds = oracle.worlds_for(rng, U.cell, U.gdim, "cell", cplx, n=3)

    def ref(w, B):
        r = S(A, w, B)
        a = B.to_complex(r.arr)
        if kind == "cross":
            b = B.to_complex(S(Bv, w, B).arr)
            v = np.cross(a, b)
        elif kind == "determinant":
            v = np.linalg.det(a) if a.shape[0] else 1.0
        elif kind == "inverse":
            v = np.linalg.inv(a)
        elif kind == "cofactor":
            v = _cofactor_np(a)
        elif kind == "adj":
            v = _cofactor_np(a).T
        elif kind == "deviatoric":
            v = a - np.trace(a) / a.shape[0] * np.eye(a.shape[0])
        elif kind in ("pseudo_determinant", "determinant_rect"):
            v = np.sqrt(np.linalg.det(a.T @ a))
        else:
            v = np.linalg.pinv(a)
            if np.linalg.cond(a) > 1e4:
                B.flag("pinv:ill-conditioned")
        if kind in ("inverse",) and np.linalg.cond(a) > 1e5:
            B.flag("inverse:ill-conditioned")
        v = np.asarray(v, dtype=complex)
        return Result(v, v.ndim, (), set(r.flags) | set(B.flags), r.maxabs)

    def got(w, B):
        r = S(out, w, B)
        r.arr = B.to_complex(r.arr)  # the numpy oracle is float: compare in float
        return r

    vs = [oracle.compare_once(ref, got, w) for w in worlds]
    count_verdicts(ctx, vs, "helper_")
    verdict = oracle.decide(vs)
    ctx.count("helper_" + verdict)
    if verdict == "held":
        ctx.add_distinct(("helper", kind, shape, cplx, skeleton(A, 1)))
    if verdict == "violated":
        bad = next(v for v in vs if v.kind == "disagree")
        ctx.violation(f"C06/compound_expressions.{kind}/{shape[0]}x{shape[-1]}", f"{kind}_expr differs from the linear-algebra definition (err {bad.err}, {bad.why})", {"A": str(A)[:400], "out": str(out)[:600]})


def convention_case(ctx, rng, U, G, cplx):
    """inner / outer / dot through the public functions for every pairing of scalar and tensor operands, lowered, against
    the documented conventions written in numpy: inner(a, b) = sum a conj(b), outer(a, b) = conj(a) (x) b (the FIRST operand
    is conjugated), dot(a, b) = sum_k a[..., k] b[k, ...] without conjugation.  Construction-time shortcuts (a scalar
    operand never produces an Inner / Outer / Dot node) are judged here, where S alone could not see them."""
    kind = rng.choice(["inner", "outer", "outer", "dot"])
    if kind == "inner":
        sa = sb = rng.choice([(), (), (2,), (3,), (2, 2), (2, 3)])
    elif kind == "outer":
        sa = rng.choice([(), (2,), (3,), (2, 2)])
        sb = rng.choice([(), (2,), (3,), (2, 3)])
    else:
        sa, sb = rng.choice([((), ()), ((), (2,)), ((3,), ()), ((2,), (2,)), ((2, 3), (3,)), ((2,), (2, 2)), ((2, 2), ())])
    A = dense(G, U, rng, sa, True) if sa else G.expr((), 1)
    Bx = dense(G, U, rng, sb, True) if sb else G.expr((), 1)
    try:
        e = getattr(ufl, kind)(A, Bx)
        out = apply_algebra_lowering(e)
    except Exception as ex:
        ctx.count("convention_rejected")
        ctx.covered("rejected_with", type(ex).__name__ + ":convention:" + kind)
        return
    worlds = oracle.worlds_for(rng, U.cell, U.gdim, "cell", cplx, n=3)

    def ref(w, B):
        ra, rb = S(A, w, B), S(Bx, w, B)
        a, b = B.to_complex(ra.arr), B.to_complex(rb.arr)
        if kind == "inner":
            v = np.sum(a * np.conj(b))
        elif kind == "outer":
            v = np.multiply.outer(np.conj(a), b)
        elif a.ndim == 0 or b.ndim == 0:
            v = a * b
        else:
            v = np.tensordot(a, b, axes=([a.ndim - 1], [0]))
        v = np.asarray(v, dtype=complex)
        return Result(v, v.ndim, (), set(ra.flags) | set(rb.flags) | set(B.flags), max(ra.maxabs, rb.maxabs))

    def got(w, B):
        r = S(out, w, B)
        r.arr = B.to_complex(r.arr)
        return r

    vs = [oracle.compare_once(ref, got, w) for w in worlds]
    count_verdicts(ctx, vs, "convention_")
    verdict = oracle.decide(vs)
    ctx.count("convention_" + verdict)
    if verdict == "held":
        ctx.covered("conventions_held", f"{kind}:{len(sa)}x{len(sb)}")
        ctx.add_distinct(("convention", kind, sa, sb, cplx))
    if verdict == "violated":
        bad = next(v for v in vs if v.kind == "disagree")
        ctx.violation(f"C06/convention/{kind}/rank{len(sa)}-rank{len(sb)}" + ("/complex" if cplx else ""),
                      f"{kind}(a, b) with operand shapes {sa}, {sb} does not have the documented value (err {bad.err}, {bad.why})",
                      {"a": str(A)[:300], "b": str(Bx)[:300], "built": str(e)[:400], "lowered": str(out)[:500]})


def _cofactor_np(a):
    n = a.shape[0]
    c = np.zeros((n, n), dtype=complex)
    for i in range(n):
        for j in range(n):
            m = np.delete(np.delete(a, i, axis=0), j, axis=1)
            c[i, j] = (-1) ** (i + j) * (np.linalg.det(m) if n > 1 else 1.0)
    return c


# ---- additional workload (thorough tier): the repository's own test-suite with this property's passes monitored
EXTRA_JOBS = {"thorough": ["suite"]}
SUITE_TARGETS = ['apply_algebra_lowering']


def extra_suite(ctx):
    """Every call the repository's tests make to the monitored passes is judged by the same value oracle (vf/suitemon.py)."""
    from ..suite_driver import run_suite

    run_suite(ctx, SUITE_TARGETS, "C06")
