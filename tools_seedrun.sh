#!/bin/sh
# usage: tools_seedrun.sh <seeded name> <check id> [extra check args]  -- run one check against a filed seeded change
name="$1"; chk="$2"; shift 2
wt=$(mktemp -d /tmp/seedrun.XXXXXX); rmdir $wt
git -C /repo worktree add --detach $wt HEAD -q || exit 2
git -C $wt apply /verif/seeded/$name/patch.diff || { echo "patch does not apply"; git -C /repo worktree remove --force $wt; exit 2; }
VERIF_REPO=$wt /verif/check $chk "$@" 2>&1 | grep -E "^VIOLATION|^  key=|^HELD|^INCONCLUSIVE|^BROKEN|^KNOWN" | cut -c1-330 | head -8
git -C /repo worktree remove --force $wt; git -C /repo worktree prune
